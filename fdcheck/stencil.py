"""STN — access-relation (stencil) analysis of the 1D slice code.

Arrays are abstracted as piecewise functions of their own index k over symbolic index
ranges with bounds a*n+b (n = number of cells): SArr(length, [(lo, hi, value)]).  A value
is a domain value (GVN ring element) whose atoms are elements of input arrays at an index
*relative* to k (`d@+1` = d[k+1]) or *absolute* (`d#0n+0` = d[0], `d#1n-1` = d[n-1]).
Reading a shifted slice shifts the relative atoms; element-wise operations intersect the
segments; slice and element assignments overwrite segments.  The decoded relation of every
assignment is therefore explicit: "entity at index k := expression over entities at small
constant offsets", for all n (n >= N_MIN so that the order of segment bounds is fixed).
"""
import re
from fractions import Fraction

from .project import AnalysisError

N_MIN = 8
REL = re.compile(r"^(?P<name>[A-Za-z_][\w.]*)@(?P<off>[+-]\d+)$")
ABS = re.compile(r"^(?P<name>[A-Za-z_][\w.]*)#(?P<a>-?\d+)n(?P<b>[+-]\d+)$")


class NLin:
    """a*n + b"""
    __slots__ = ("a", "b")

    def __init__(self, a=0, b=0):
        self.a, self.b = int(a), int(b)

    @staticmethod
    def lift(v):
        if isinstance(v, NLin):
            return v
        if isinstance(v, int) and not isinstance(v, bool):
            return NLin(0, v)
        if isinstance(v, Fraction) and v.denominator == 1:
            return NLin(0, int(v))
        raise AnalysisError("index expression is not affine in the mesh size: %r" % (v,))

    def __add__(self, o):
        o = NLin.lift(o)
        return NLin(self.a + o.a, self.b + o.b)

    __radd__ = __add__

    def __sub__(self, o):
        o = NLin.lift(o)
        return NLin(self.a - o.a, self.b - o.b)

    def __rsub__(self, o):
        return NLin.lift(o) - self

    def __neg__(self):
        return NLin(-self.a, -self.b)

    def __mul__(self, o):
        if isinstance(o, int):
            return NLin(self.a * o, self.b * o)
        raise AnalysisError("non-affine index arithmetic")

    __rmul__ = __mul__

    def __eq__(self, o):
        try:
            o = NLin.lift(o)
        except AnalysisError:
            return False
        return self.a == o.a and self.b == o.b

    def __ne__(self, o):
        return not self.__eq__(o)

    def __hash__(self):
        return hash((self.a, self.b))

    def le(self, o):
        """self <= o for all n >= N_MIN"""
        o = NLin.lift(o)
        d = o - self
        if d.a > 0:
            return d.a * N_MIN + d.b >= 0
        if d.a == 0:
            return d.b >= 0
        return False

    def lt(self, o):
        return self.le(NLin.lift(o) - 1)

    def is_const(self):
        return self.a == 0

    def __repr__(self):
        if self.a == 0:
            return str(self.b)
        s = "n" if self.a == 1 else "%dn" % self.a
        return s if self.b == 0 else "%s%+d" % (s, self.b)


def nmin(x, y):
    return x if x.le(y) else y


def nmax(x, y):
    return y if x.le(y) else x


class SArr:
    """piecewise array; segs: list of (lo, hi, val) sorted, within [0, length)"""
    def __init__(self, length, segs):
        self.length = NLin.lift(length)
        self.segs = [(NLin.lift(l), NLin.lift(h), v) for l, h, v in segs if NLin.lift(l).lt(h)]

    def copy(self):
        return SArr(self.length, list(self.segs))

    def __repr__(self):
        return "SArr(len=%r, %s)" % (self.length, "; ".join("[%r,%r): %s" % (l, h, v) for l, h, v in self.segs))


class Stn:
    """operations on SArr over an interpreter domain (algebra)"""
    def __init__(self, alg):
        self.alg = alg
        self.events = []       # shape problems etc.
        self.positive = set()  # array names whose elements are positive
        self.ordered = set()   # array names that are increasing (xf): differences have sign

    # -- atoms
    def rel(self, name, off=0):
        return self.alg.sym("%s@%+d" % (name, off), positive=name in self.positive)

    def absol(self, name, idx):
        idx = NLin.lift(idx)
        return self.alg.sym("%s#%dn%+d" % (name, idx.a, idx.b), positive=name in self.positive)

    def input(self, name, length):
        return SArr(length, [(0, length, self.rel(name, 0))])

    # -- reductions over the cell index
    def _indexed(self, aid, memo):
        if aid in memo:
            return memo[aid]
        A = self.alg
        at = A.atoms[aid]
        memo[aid] = False
        r = False
        if at.kind == "sym":
            r = bool(REL.match(at.name))
        elif at.kind in ("base", "defined"):
            r = any(self._indexed(a, memo) for a in A.atoms_of(at.defn))
        elif at.kind == "ind":
            r = any(self._indexed(a, memo) for m in at.cond for a, e in m)
        elif at.kind == "opaque" and at.name.startswith("Sum("):
            r = False          # the index is bound by the sum
        elif at.kind == "opaque":
            from .algebra import RF
            r = any(self._indexed(a, memo) for x in at.args if isinstance(x, RF) for a in A.atoms_of(x))
        memo[aid] = r
        return r

    def summation(self, arr, count=None):
        """sum over all entries of a piecewise array as a ring element: linear, index-free factors
        are taken out, each remaining indexed monomial m becomes the atom Sum(m); an index-free
        term needs the number of entries `count` (ring element)"""
        from .algebra import RF
        A = self.alg
        if not isinstance(arr, SArr):
            raise AnalysisError("sum of a non-array value")
        if len(arr.segs) != 1 or arr.segs[0][0] != NLin(0, 0) or arr.segs[0][1] != arr.length:
            raise AnalysisError("sum over a piecewise array (%d segments)" % len(arr.segs))
        v = A.lift(arr.segs[0][2])
        memo = {}
        for fid, mult in v.den:
            for m in A.factors[fid]:
                if any(self._indexed(a, memo) for a, e in m):
                    return A.opaque("Sum", [v])
        groups = {}
        for m, c in v.num.items():
            free = tuple((a, e) for a, e in m if not self._indexed(a, memo))
            idx = tuple((a, e) for a, e in m if self._indexed(a, memo))
            groups[idx] = A.add(groups[idx], RF(A, {free: c})) if idx in groups else RF(A, {free: c})
        total = A.const(0)
        for idx, fr in groups.items():
            if not idx:
                if count is None:
                    raise AnalysisError("sum of an index-free term needs the number of entries")
                total = A.add(total, A.mul(fr, A.lift(count)))
            else:
                total = A.add(total, A.mul(fr, A.opaque("Sum", [RF(A, {idx: Fraction(1)})])))
        den = RF(A, {(): Fraction(1)}, v.den)
        return A.mul(total, den)

    # -- substitution of index
    def _map_atoms(self, val, fn):
        A = self.alg
        from .algebra import RF
        if not isinstance(val, RF):
            return val
        mapping = {}
        todo = set(A.atoms_of(val))
        seen = set()
        # look inside base / ind / defined / opaque atoms too
        while todo:
            aid = todo.pop()
            if aid in seen:
                continue
            seen.add(aid)
            at = A.atoms[aid]
            if at.kind == "sym":
                new = fn(at.name)
                if new is not None:
                    mapping[aid] = new
            elif at.kind in ("base", "defined"):
                todo |= A.atoms_of(at.defn)
            elif at.kind == "ind":
                todo |= {a for m in at.cond for a, e in m}
            elif at.kind == "opaque":
                for x in at.args:
                    if isinstance(x, RF):
                        todo |= A.atoms_of(x)
        if not mapping:
            return val
        return A.subst(val, mapping)

    def shift(self, val, s):
        if s == 0:
            return val

        def fn(name):
            m = REL.match(name)
            if m:
                return self.rel(m.group("name"), int(m.group("off")) + s)
            return None
        return self._map_atoms(val, fn)

    def absolutize(self, val, idx):
        idx = NLin.lift(idx)

        def fn(name):
            m = REL.match(name)
            if m:
                return self.absol(m.group("name"), idx + int(m.group("off")))
            return None
        return self._map_atoms(val, fn)

    def relativize(self, val, idx):
        """absolute atoms name#(idx+d) -> relative name@d  (inverse of absolutize)"""
        idx = NLin.lift(idx)

        def fn(name):
            m = ABS.match(name)
            if m:
                a, b = int(m.group("a")), int(m.group("b"))
                if a == idx.a:
                    return self.rel(m.group("name"), b - idx.b)
            return None
        return self._map_atoms(val, fn)

    # -- index normalisation
    def norm_index(self, arr, idx):
        idx = NLin.lift(idx)
        if idx.a == 0 and idx.b < 0:
            idx = arr.length + idx.b
        return idx

    def view(self, arr, lo, hi):
        """arr[lo:hi] as an SArr in its own index"""
        lo = NLin(0, 0) if lo is None else self.norm_index(arr, lo)
        hi = arr.length if hi is None else self.norm_index(arr, hi)
        if not lo.is_const():
            raise AnalysisError("slice start %r depends on the mesh size" % lo)
        if hi.le(lo):
            raise AnalysisError("empty slice [%r:%r]" % (lo, hi))
        if not hi.le(arr.length):
            self.events.append(("shape", "slice end %r beyond array length %r" % (hi, arr.length)))
        s = lo.b
        segs = []
        for l, h, v in arr.segs:
            l2, h2 = nmax(l, lo), nmin(h, hi)
            if l2.lt(h2):
                segs.append((l2 - s, h2 - s, self.shift(v, s)))
        out = SArr(hi - lo, segs)
        self._check_cover(out, "read of slice [%r:%r]" % (lo, hi))
        return out

    def _check_cover(self, arr, what):
        pos = NLin(0, 0)
        for l, h, v in arr.segs:
            if l != pos:
                raise AnalysisError("%s: elements [%r,%r) are undefined" % (what, pos, l))
            pos = h
        if pos != arr.length:
            raise AnalysisError("%s: elements [%r,%r) are undefined" % (what, pos, arr.length))

    def elem(self, arr, idx):
        idx = self.norm_index(arr, idx)
        for l, h, v in arr.segs:
            if l.le(idx) and idx.lt(h):
                return self.absolutize(v, idx)
        raise AnalysisError("element %r of an array of length %r is undefined" % (idx, arr.length))

    def zip_map(self, fn, *ops):
        """element-wise combination of SArr / scalar operands"""
        arrs = [o for o in ops if isinstance(o, SArr)]
        L = arrs[0].length
        for a in arrs[1:]:
            if a.length != L:
                self.events.append(("shape", "operands of lengths %r and %r combined element-wise" % (L, a.length)))
                raise AnalysisError("shape mismatch: lengths %r and %r" % (L, a.length))
        bounds = set()
        for a in arrs:
            for l, h, v in a.segs:
                bounds.add(l)
                bounds.add(h)
        bl = sorted(bounds, key=lambda x: (x.a, x.b))
        # verify the order is valid for n >= N_MIN
        for x, y in zip(bl, bl[1:]):
            if not x.le(y):
                raise AnalysisError("segment bounds %r, %r are not ordered for all n >= %d" % (x, y, N_MIN))
        segs = []
        for l, h in zip(bl, bl[1:]):
            vals = []
            for o in ops:
                if isinstance(o, SArr):
                    v = None
                    for sl, sh, sv in o.segs:
                        if sl.le(l) and h.le(sh):
                            v = sv
                            break
                    if v is None:
                        raise AnalysisError("undefined elements [%r,%r) in an element-wise operation" % (l, h))
                    vals.append(v)
                else:
                    vals.append(o)
            segs.append((l, h, fn(*vals)))
        return SArr(L, segs)

    def assign_slice(self, arr, lo, hi, value):
        lo = NLin(0, 0) if lo is None else self.norm_index(arr, lo)
        hi = arr.length if hi is None else self.norm_index(arr, hi)
        if not lo.is_const():
            raise AnalysisError("slice start %r depends on the mesh size" % lo)
        L = hi - lo
        new = []
        if isinstance(value, SArr):
            if value.length != L:
                self.events.append(("shape", "slice of length %r assigned from an expression of length %r" % (L, value.length)))
                raise AnalysisError("shape mismatch in slice assignment: %r vs %r" % (L, value.length))
            for l, h, v in value.segs:
                new.append((l + lo, h + lo, self.shift(v, -lo.b)))
        else:
            new.append((lo, hi, value))
        self._overwrite(arr, lo, hi, new)

    def assign_elem(self, arr, idx, value):
        idx = self.norm_index(arr, idx)
        self._overwrite(arr, idx, idx + 1, [(idx, idx + 1, self.relativize(value, idx))])

    def _overwrite(self, arr, lo, hi, new):
        keep = []
        for l, h, v in arr.segs:
            if h.le(lo) or hi.le(l):
                keep.append((l, h, v))
                continue
            if l.lt(lo):
                keep.append((l, lo, v))
            if hi.lt(h):
                keep.append((hi, h, v))
        segs = keep + list(new)
        segs.sort(key=lambda s: (s[0].a, s[0].b))
        for (l1, h1, _), (l2, h2, _) in zip(segs, segs[1:]):
            if not h1.le(l2):
                raise AnalysisError("segment order not decidable for all n >= %d" % N_MIN)
        arr.segs = [(l, h, v) for l, h, v in segs if l.lt(h)]

    def interior(self, arr):
        """the segment whose bounds both grow with n or span it (generic interior), if unique"""
        cands = [s for s in arr.segs if (s[1] - s[0]).a >= 1]
        if len(cands) != 1:
            raise AnalysisError("no unique interior segment (%d candidates)" % len(cands))
        return cands[0]
