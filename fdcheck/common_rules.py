"""Rules shared by several properties: they run before the property's own body, on the part
of the source each property depends on (scope table below: module, class pattern, method
pattern -- chosen so that a finding in scope breaks *that* property for some call history).

STATE-MEMO : no stale memoised state (memo.py)
"""
import os
from fractions import Fraction
import ast
import re
import shutil
import tempfile

from . import alias, memo, pointwise
from .project import AnalysisError, Project

ALLM = ".*"
INTEG_STEP = r"(step|add_res|calcrhs|calc_jacobian|solve_implicit)$"
SCOPES = {
    "C01": [("modeldisc", ALLM, ALLM), ("mesh", ALLM, ALLM), ("mesh2d", ALLM, ALLM), ("meshbase", ALLM, ALLM), ("integration", ALLM, INTEG_STEP)],
    "C02": [(r"modelphy\..*", ALLM, r"(numflux.*|_[A-Za-z].*)$")],
    # C03: on a uniform state every difference the scheme forms is zero, so stale geometry or a stale
    # (consistent) flux function cannot move it; only boundary states can
    # (a stale Jacobian multiplies a zero residual: harmless too; INTEG-FIX covers the integrators)
    "C03": [(r"modelphy\..*", ALLM, r"(bc_.*|namedBC)$")],
    # C04: a stale flux *name* still selects a consistent flux (same order); reconstruction / operator state matters
    "C04": [("xnum", ALLM, ALLM), ("modeldisc", ALLM, ALLM), ("field", ALLM, ALLM), ("integration", ALLM, r"(_solve|solve|restart|reset|_check_end|add_res|step|calcrhs)$")],
    "C05": [("integration", ALLM, r"(step|add_res|calcrhs)$")],
    "C06": [("integration", ALLM, INTEG_STEP)],
    "C07": [("integration", ALLM, r"(_solve|solve|restart|reset|_check_end|add_res|step|calcrhs)$"), ("field", ALLM, ALLM)],
    "C08": [("integration", ALLM, ALLM), ("monitors", ALLM, ALLM), ("field", ALLM, ALLM)],
    "C10": [(r"modelphy\..*", ALLM, r"(numflux.*|_[A-Za-z].*|timestep)$"), ("modeldisc", ALLM, "calc_timestep$"), ("integration", ALLM, r"(step|add_res)$")],
    "C11": [("xnum", ALLM, ALLM), ("modeldisc", ALLM, r"(calc_grad|calc_bc_grad|interp.*|rhs|calc_bc)$")],
    "C12": [],
    # C13: state that depends on what the reflection / rescaling changes (geometry, dir, data); not the name dispatchers
    "C13": [("modeldisc", ALLM, ALLM), ("xnum", ALLM, ALLM), (r"modelphy\..*", ALLM, r"(bc_.*|numflux_.*|timestep|cons2prim|prim2cons|_[A-Za-z].*)$"),
            ("integration", ALLM, r"(step|add_res|calcrhs|solve_implicit)$"), ("field", ALLM, ALLM), ("mesh", ALLM, ALLM), ("meshbase", ALLM, ALLM)],
    # C14: on a uniform mesh stale *geometry* is still uniform (translation invariant); index tables and operator state matter
    "C14": [("modeldisc", ALLM, ALLM), ("mesh2d", ALLM, ALLM)],
    # C15: the statement's reconstructions are extrapol2d1 / extrapol2dk and their 1D counterparts
    "C15": [("modeldisc", ALLM, ALLM), ("xnum", r"extrapol.*", ALLM), ("mesh2d", ALLM, ALLM), (r"modelphy\.euler", ALLM, ALLM)],
    "C16": [(r"modelphy\..*", ALLM, r"(bc_.*|namedBC|_[A-Za-z].*)$"), ("modeldisc", ALLM, r"calc_bc.*$")],
    "C17": [(r"modelphy\..*", ALLM, r"(?!numflux|bc_|src_|timestep|namedBC).*$"), ("field", ALLM, ALLM)],
    "C18": [(r"modelphy\..*", ALLM, r"(timestep|_[A-Za-z].*)$"), ("modeldisc", ALLM, "calc_timestep$"), ("integration", ALLM, r"(_solve|add_res)$")],
    "C19": [("modeldisc", ALLM, r"(add_source|rhs)$"), (r"modelphy\..*", ALLM, r"(src_.*|__init__|initdisc)$")],
    "C20": [("mesh", ALLM, ALLM), ("mesh2d", ALLM, ALLM), ("meshbase", ALLM, ALLM)],
}


def in_scope(pid, func):
    for mod, cpat, mpat in SCOPES.get(pid, []):
        if re.fullmatch(mod, func.module.short) and (func.cls is None or re.fullmatch(cpat, func.cls.name)) and re.match(mpat, func.name):
            return True
    return False


def scope_classes(pid, proj):
    out = []
    for ci in proj.all_classes():
        if any(re.fullmatch(mod, ci.module.short) and re.fullmatch(cpat, ci.name) for mod, cpat, _ in SCOPES.get(pid, [])):
            out.append(ci)
    return out


_EXAMPLE = '''
class good:
    def __init__(self, n):
        self.n = n
        self._w = None
    def weights(self, data):
        nc = data[0].size
        if self._w is None or self._w.size != nc:
            self._w = np.zeros(nc)
        return self._w

class bad:
    _tab = {}
    def __init__(self):
        self._d = None
    def dist(self, mesh, data):
        if self._d is None or self._d.size != data[0].size:
            self._d = mesh.xf[1:] - mesh.xc
        return self._d
    def table(self, nx, ny):
        return self._tab.setdefault(nx * ny, np.arange(ny) * (nx + 1))
'''
_example_ok = None


def positive_example():
    """the memo analysis must report exactly the two stale caches of the built-in example and
    stay silent on its complete cache (a rule that matches nothing on the library must still be
    shown to match something on every run)"""
    global _example_ok
    if _example_ok is not None:
        return _example_ok
    tmp = tempfile.mkdtemp(prefix="fdcheck_memo_example_")
    try:
        os.makedirs(os.path.join(tmp, "flowdyn"))
        with open(os.path.join(tmp, "flowdyn", "__init__.py"), "w") as fh:
            fh.write("")
        with open(os.path.join(tmp, "flowdyn", "example.py"), "w") as fh:
            fh.write("import numpy as np\n" + _EXAMPLE)
        proj = Project(tmp)
        fs, _ = memo.analyse(proj, list(proj.all_classes()))
        got = sorted((f.func.qualname, f.attr) for f in fs)
        _example_ok = got == [("example.bad.dist", "_d"), ("example.bad.table", "_tab")]
        if not _example_ok:
            raise AnalysisError("STATE-MEMO built-in example: expected the two stale caches of class `bad`, got %s" % got)
    finally:
        shutil.rmtree(tmp, ignore_errors=True)
    return _example_ok


def state_memo(check):
    pid = check.pid
    proj = check.proj
    classes = scope_classes(pid, proj)
    if not classes:
        return
    positive_example()
    fs, st = memo.analyse(proj, classes)
    nrep = 0
    # helpers the in-scope methods call on their own object (self.helper(...)), transitively, belong to the scope
    called = set()
    work = [g for c in classes for g in c.methods.values() if in_scope(pid, g)]
    while work:
        g = work.pop()
        if not g.has_self or g.cls is None:
            continue
        for n in ast.walk(g.node):
            if isinstance(n, ast.Attribute) and isinstance(n.value, ast.Name) and n.value.id == g.params[0]:
                for c in classes:
                    if any(b is g.cls for b in proj.mro(c)) or any(b is c for b in proj.mro(g.cls)):
                        h = c.methods.get(n.attr)
                        if h is not None and h.qualname not in called:
                            called.add(h.qualname)
                            work.append(h)
    for f in fs:
        if not in_scope(pid, f.func) and f.func.qualname not in called and not (f.level in ("class-level attribute", "class-level container") and f.func.cls is not None and any(f.func.cls is c for c in classes)
                                              and any(in_scope(pid, g) for c in classes if any(b is f.func.cls for b in proj.mro(c)) for g in c.methods.values() if g.name != "__init__")):
            # (state on the CLASS is shared with the subclasses: their in-scope methods read it through the inherited ones)
            continue
        nrep += 1
        check.violation("STATE-MEMO", f.func.qualname, f.message, "%s:%d" % (f.func.module.relpath, f.line), key=f.key)
    check.inventory["STATE-MEMO classes / methods scanned"] = "%d / %d" % (st["classes"], st["methods"])
    if not nrep:
        check.ok("STATE-MEMO", "%d classes in the scope of %s" % (len(classes), pid),
                 "no memoised state with an incomplete re-use condition: %d persistent stores examined, %d covered by their guard or key, %d owned by a named rule (%s); built-in example: 2 stale caches reported, 1 complete cache silent"
                 % (st["memo_stores"], len(st["covered"]), len(st["exempt"]), "; ".join(sorted(set(st["exempt"]))) or "-"), nontrivial=True)


# ---------------------------------------------------------------------------------------------
LIMITER_NAMES = ["minmod", "vanalbada", "vanleer", "superbee"]
_POINTWISE_EXAMPLE = '''
class m2d:
    def ok(self, data):
        return np.sum(data[1] * data[1], axis=0) / data[0]

class m1d:
    def timestep(self, data, dx, condition):
        return condition * dx / np.abs(data[0])
    def bad1(self, data, dx, condition):
        vmax = np.max(np.abs(data[0]))
        return condition * dx / vmax
    def bad2(self, data, dx, condition):
        return condition * np.gradient(dx) / self.speed(data)
    def energy(self, data):
        if data[1].shape[0] != 2:
            return data[1] ** 2
        return data[1][0] ** 2 + data[1][1] ** 2
    def energy_ok(self, data):
        if data[1].ndim == 1:
            return data[1] ** 2
        return data[1][0] ** 2 + data[1][1] ** 2
    def speed(self, data):
        if np.all(data[0] > 0):
            return data[0].max()
        return abs(data[0]).max()
'''
_pw_ok = None


def pointwise_example():
    global _pw_ok
    if _pw_ok is not None:
        return
    tmp = tempfile.mkdtemp(prefix="fdcheck_pw_example_")
    try:
        os.makedirs(os.path.join(tmp, "flowdyn"))
        open(os.path.join(tmp, "flowdyn", "__init__.py"), "w").close()
        with open(os.path.join(tmp, "flowdyn", "example.py"), "w") as fh:
            fh.write("import numpy as np\n" + _POINTWISE_EXAMPLE)
        proj = Project(tmp)
        got = {}
        for ci in proj.all_classes():
            for f in ci.methods.values():
                got[f.qualname] = len(pointwise.scan(proj, f))
        want = {"example.m2d.ok": 0, "example.m1d.timestep": 0, "example.m1d.bad1": 1, "example.m1d.bad2": 3, "example.m1d.speed": 2, "example.m1d.energy": 1, "example.m1d.energy_ok": 0}
        if got != want:
            raise AnalysisError("KERNEL-POINTWISE built-in example: expected %s, got %s" % (want, got))
        _pw_ok = True
    finally:
        shutil.rmtree(tmp, ignore_errors=True)


def pointwise_kernels(pid, proj):
    """the kernels property `pid` describes as point-wise: [(FuncInfo, role)]"""
    out = []
    if pid == "C12":
        for nm in LIMITER_NAMES:
            try:
                out.append((proj.func("xnum." + nm), "limiter"))
            except AnalysisError:
                pass          # a vanished limiter is reported by the property's own inventory floor
    models = [ci for ci in proj.all_classes() if ci.module.short.startswith("modelphy.")]
    if pid == "C18":
        for ci in models:
            if "timestep" in ci.methods:
                out.append((ci.methods["timestep"], "per-cell time step"))
    if pid == "C17":
        seen = set()
        for ci in models:
            for nm in ("cons2prim", "prim2cons"):
                if nm in ci.methods:
                    out.append((ci.methods[nm], "conversion"))
            reg = ci.registries.get("_vardict")
            if reg:
                for key, f in reg["entries"].items():
                    if f.qualname not in seen:
                        seen.add(f.qualname)
                        out.append((f, "output variable"))
    return out


def kernel_pointwise(check):
    pid, proj = check.pid, check.proj
    ks = pointwise_kernels(pid, proj)
    if not ks:
        return
    pointwise_example()
    n = 0
    for f, role in ks:
        for qn, ln, text, why in pointwise.scan(proj, f):
            n += 1
            check.violation("KERNEL-POINTWISE", f.qualname, "%s must be point-wise, but `%s` (%s:%d): %s" % (role, text, qn, ln, why),
                            "%s:%d" % (f.module.relpath, ln), key="nonpointwise")
    check.inventory["KERNEL-POINTWISE kernels scanned"] = len(ks)
    if not n:
        check.ok("KERNEL-POINTWISE", "%d kernels (%s)" % (len(ks), ", ".join(sorted({r for _, r in ks}))),
                 "no reduction or neighbour access applied to an argument-dependent value; built-in example: 6 couplings and 1 extent-dependent branch reported, 3 point-wise kernels and 1 np.all guard silent")


# ---------------------------------------------------------------------------------------------
_ALIAS_EXAMPLE = '''
class methoddict:
    def __init__(self, pref=""):
        self.dict = {}
    def register(self):
        def deco(f):
            self.dict[f.__name__] = f
            return f
        return deco

class model:
    _vardict = methoddict()
    _bcdict = methoddict("bc_")
    @_vardict.register()
    def momentum(self, qdata):
        return qdata[1]
    @_vardict.register()
    def scaled(self, qdata):
        m = self.momentum(qdata)
        m *= 2.0
        return m
    @_vardict.register()
    def scaled_ok(self, qdata):
        m = self.momentum(qdata).copy()
        m *= 2.0
        return m
    @_bcdict.register()
    def bc_copy(self, dir, data, param):
        return data
    def namedBC(self, name, dir, data, param):
        return (self._bcdict.dict[name])(self, dir, data, param)

class disc:
    def calc_bc(self):
        buf = [None] * 3
        for i in range(3):
            buf[i] = self.pR[i][0]
        qL = self.model.namedBC("copy", -1, buf, {})
        for i in range(3):
            buf[i] = self.pL[i][5]
        qR = self.model.namedBC("copy", 1, buf, {})
        for i in range(3):
            self.pL[i][0] = qL[i]
            self.pR[i][5] = qR[i]
    def calc_bc_ok(self):
        qL = self.model.namedBC("copy", -1, [self.pR[i][0] for i in range(3)], {})
        qR = self.model.namedBC("copy", 1, [self.pL[i][5] for i in range(3)], {})
        for i in range(3):
            self.pL[i][0] = qL[i]
            self.pR[i][5] = qR[i]
'''
_alias_cache = {}
_alias_ok = None


def alias_analysis(proj):
    k = id(proj)
    if k not in _alias_cache:
        _alias_cache[k] = alias.Analysis(proj)
    return _alias_cache[k]


def alias_example():
    global _alias_ok
    if _alias_ok is not None:
        return
    tmp = tempfile.mkdtemp(prefix="fdcheck_alias_example_")
    try:
        os.makedirs(os.path.join(tmp, "flowdyn"))
        open(os.path.join(tmp, "flowdyn", "__init__.py"), "w").close()
        with open(os.path.join(tmp, "flowdyn", "example.py"), "w") as fh:
            fh.write("import numpy as np\n" + _ALIAS_EXAMPLE)
        proj = Project(tmp)
        an = alias.Analysis(proj)
        got = {q: (sorted(o for o in s.mut if o.startswith("P:")), len(an.clobbers[q])) for q, s in an.summ.items() if q.startswith("example.model.s") or q.startswith("example.disc")}
        want = {"example.model.scaled": (["P:qdata[]"], 0), "example.model.scaled_ok": ([], 0), "example.disc.calc_bc": ([], 1), "example.disc.calc_bc_ok": ([], 0)}
        if got != want:
            raise AnalysisError("ALIAS built-in example: expected %s, got %s" % (want, got))
        _alias_ok = True
    finally:
        shutil.rmtree(tmp, ignore_errors=True)


def _model_classes(proj):
    return [ci for ci in proj.all_classes() if ci.module.short.startswith("modelphy.")]


def alias_rules(check):
    pid, proj = check.pid, check.proj
    if pid not in ("C01", "C02", "C10", "C13", "C15", "C16", "C17", "C19", "C20"):
        return
    alias_example()
    an = alias_analysis(proj)
    if pid in ("C17", "C19"):
        # (C19: the conservative data the discretisation converts at the start of rhs() are the very list handed to the source
        # functions at its end -- a conversion that works in place feeds them primitive values)
        n = bad = 0
        seen = set()
        for ci in _model_classes(proj):
            fs = [ci.methods[nm] for nm in ("cons2prim", "prim2cons") if nm in ci.methods]
            reg = ci.registries.get("_vardict")
            if reg and pid == "C17":
                fs += list(reg["entries"].values())
            for f in fs:
                if f.qualname in seen:
                    continue
                seen.add(f.qualname)
                n += 1
                for o, (ln, text, via, kind) in an.summ[f.qualname].mut.items():
                    if o.startswith("P:") and kind == "inplace":
                        bad += 1
                        check.violation("VAR-PURE", f.qualname, "evaluating this variable changes its argument in place (`%s`, line %d%s): the field's own data are altered, every later evaluation is wrong"
                                        % (text, ln, (", through %s" % via) if via else ""), "%s:%d" % (f.module.relpath, ln), key="mutates-arg")
                # ... and hands back a value of its own: not storage kept on the model (a work array written with out=),
                # which the next evaluation -- of another state, by the same model object -- overwrites
                kept = sorted(o for o in (an.summ[f.qualname].ret.objs | an.summ[f.qualname].ret.elts) if o.startswith("S:") and o != "S:")
                if kept and f.name not in ("cons2prim", "prim2cons"):
                    bad += 1
                    check.violation("VAR-PURE", f.qualname, "the value returned IS the array stored as self.%s (written with out= / kept on the model): a result the caller still holds (the initial state's values, one entry of a list of snapshots) silently takes the values of the next evaluation by the same model" % kept[0][2:],
                                    f.loc(), key="returns-stored")
        if not bad:
            check.ok("VAR-PURE", "%d conversion / output-variable functions" % n, "none changes (an element of) its argument in place, directly or through the functions it calls; built-in example: 1 in-place change through a returned alias reported, its copying twin silent")
    if pid in ("C02", "C10", "C13", "C01"):
        # LOCAL-ALIAS: `a = b = <new array>` makes two names for ONE array; an in-place operator on one of them (a -= c) changes
        # what the other denotes too -- in the flux kernels the two names are two different wave speeds / states
        nk = badk = 0
        seenk = set()
        for ci in _model_classes(proj):
            reg = ci.registries.get("_numfluxdict")
            for f in (list(reg["entries"].values()) if reg else []):
                if f.qualname in seenk:
                    continue
                seenk.add(f.qualname)
                nk += 1
                for ln, nm, other, text in an.shared_inplace.get(f.qualname, []):
                    badk += 1
                    check.violation("LOCAL-ALIAS", f.qualname, "`%s` (line %d) works in place on an array that the name `%s` denotes as well (they were bound together: `%s = %s = ...` / one assigned from the other, no copy): `%s` changes with it -- the two quantities are the same array from here on" % (text, ln, other, nm, other, other),
                                    "%s:%d" % (f.module.relpath, ln), key="shared-inplace")
                    break
        if nk and not badk:
            check.ok("LOCAL-ALIAS", "%d flux kernels" % nk, "no in-place operator on an array that another live local name denotes")
    if pid == "C02":
        # FLUX-PURE: a numerical flux is a FUNCTION of the two states: it leaves them as it found them (the caller evaluates the
        # mirrored problem, the physical flux, the next flux name from the same arrays) and returns arrays of its own (a result
        # kept in storage of the model is overwritten by the next evaluation while the caller still holds it)
        n = bad = 0
        seen = set()
        for ci in _model_classes(proj):
            reg = ci.registries.get("_numfluxdict")
            for f in (list(reg["entries"].values()) if reg else []) + [ci.methods[nm] for nm in ("numflux",) if nm in ci.methods]:
                if f.qualname in seen:
                    continue
                seen.add(f.qualname)
                n += 1
                for o, (ln, text, via, kind) in an.summ[f.qualname].mut.items():
                    if o.startswith("P:") and kind == "inplace":
                        bad += 1
                        check.violation("FLUX-PURE", f.qualname, "the flux changes one of the states it is given in place (`%s`, line %d%s; `%s` is the caller's array): the value returned is right, the state left behind is not -- the mirrored evaluation, the physical flux of the same state, the next call all start from corrupted data"
                                        % (text, ln, (", through %s" % via) if via else "", o[2:]), "%s:%d" % (f.module.relpath, ln), key="mutates-arg")
                        break
                kept = sorted(o for o in (an.summ[f.qualname].ret.objs | an.summ[f.qualname].ret.elts) if o.startswith("S:") and o != "S:")
                if kept:
                    bad += 1
                    check.violation("FLUX-PURE", f.qualname, "a component of the returned flux IS storage kept on the model (self.%s, written with out= / re-used between calls): a flux the caller still holds (the first of two mirrored evaluations, the x-face flux while the y-face flux is computed) silently takes the values of the next evaluation" % kept[0][2:],
                                    f.loc(), key="returns-stored")
        check.floor("registered numerical fluxes", n, 12)
        if not bad:
            check.ok("FLUX-PURE", "%d registered numerical fluxes and dispatchers" % n, "none changes a state it is given in place (directly or through a helper) and none returns storage kept on the model")
    if pid in ("C15", "C16"):
        n = bad = 0
        for f in proj.all_functions():
            if f.module.short != "modeldisc" or not f.name.startswith("calc_bc") or f.name.endswith("grad"):
                continue
            n += 1
            for c in an.clobbers[f.qualname]:
                ln, nm, cl, ctext, text, useln = c
                bad += 1
                check.violation("BC-ALIAS", f.qualname, "`%s` (line %d) may be the very list passed to %s (a registered boundary function returns its `data` argument); that list is overwritten at line %d (`%s`) before `%s` is read at line %d"
                                % (nm, cl, ctext, ln, text, nm, useln), "%s:%d" % (f.module.relpath, ln), key="clobber")
            if f.cls is not None and f.cls.name.endswith("2dcart"):
                for o, ln, text, via, kind in an.events[f.qualname]:
                    if kind == "inplace" and via and via.split(".")[-1].startswith("bc_") and (o.startswith("S:") or o.startswith("P:")):
                        cls2d = via.split(".")[-2].endswith("2d")
                        if not cls2d:
                            continue
                        bad += 1
                        check.violation("BC-ALIAS", f.qualname, "the interior face state handed to the boundary function is a view (slice index), and %s changes it in place: `%s`" % (via, text),
                                        "%s:%d" % (f.module.relpath, ln), key="view")
                        break
        # ... and the caller's parameter dictionary of a boundary is an input: one dictionary serves every evaluation, every
        # face, and often several boundaries; an entry written by the first evaluation (a cached default) decides the later ones
        nb = badp = 0
        seenf = set()
        for ci in _model_classes(proj):
            reg = ci.registries.get("_bcdict")
            for f in (reg["entries"].values() if reg else ()):
                if f.qualname in seenf or len(f.params) < 4:
                    continue
                seenf.add(f.qualname)
                nb += 1
                pname = f.params[3]
                for o, (ln, text, via, kind) in an.summ[f.qualname].mut.items():
                    if kind == "inplace" and o.startswith("P:" + pname):
                        badp += 1
                        check.violation("BC-PARAM-PURE", f.qualname, "the boundary function writes into the parameter dictionary the user attached to the boundary (`%s`, line %d%s): the value stored by the first evaluation (computed from that call's face data) is what every later evaluation -- other faces, other boundaries sharing the dictionary, another mesh -- reads back"
                                        % (text, ln, (", through %s" % via) if via else ""), "%s:%d" % (f.module.relpath, ln), key="mutates-param")
        check.floor("registered boundary functions", nb, 10)
        if not badp:
            check.ok("BC-PARAM-PURE", "%d registered boundary functions" % nb, "none changes its parameter dictionary in place")
        check.floor("calc_bc functions", n, 2)
        if not bad:
            check.ok("BC-ALIAS", "%d calc_bc functions" % n, "no boundary result is overwritten through its argument list before use, and no boundary function changes a view of the interior state; built-in example: 1 overwritten argument list reported, its fresh-list twin silent")
    if pid == "C01":
        bad = n = 0
        # the add_source each discretisation class runs (own or inherited: a method shared through the
        # base class serves both), each function analysed once
        seen_src = []
        for cn in ("modeldisc.fvm1d", "modeldisc.fvm2dcart"):
            g = proj.resolve(proj.cls(cn), "add_source") if proj.has_cls(cn) else None
            if g is not None:
                n += 1
                if not any(g is x for x in seen_src):
                    seen_src.append(g)
        for f in seen_src:
            if True:
                for o, (ln, text, via, kind) in an.summ[f.qualname].mut.items():
                    if o.startswith("X:") and kind == "inplace":
                        bad += 1
                        check.violation("SRC-OWN", f.qualname, "the array returned by a source callable is changed in place (`%s`, line %d): a callable that returns a stored array accumulates the flux balances of earlier evaluations" % (text, ln),
                                        "%s:%d" % (f.module.relpath, ln), key="src-own")
        check.floor("discretisation classes with an add_source", n, 2)
        if not bad:
            check.ok("SRC-OWN", "%d add_source functions" % n, "source-callable results are only read")
    if pid == "C20":
        bad = n = 0
        # a memo table whose key determines every input of the stored value (decided by MEMO) and whose entries are never
        # handed out (the method returns nothing that IS stored) is not geometry: filling it changes no answer
        _fs, _st = memo.analyse(proj, [c for c in proj.all_classes() if c.module.short in ("mesh", "mesh2d", "meshbase")])
        complete = set(_st["covered"]) - {"%s.%s" % (x.func.qualname, x.attr) for x in _fs}
        for ci in proj.all_classes():
            if ci.module.short not in ("mesh", "mesh2d", "meshbase"):
                continue
            for f in ci.methods.values():
                if f.name == "__init__":
                    continue
                n += 1
                for o, (ln, text, via, kind) in an.summ[f.qualname].mut.items():
                    attr0 = o[2:].split("[")[0].split(".")[0]
                    if o.startswith("S:") and kind == "inplace" and "%s.%s" % (f.qualname, attr0) in complete \
                            and not any(r.startswith("S:" + attr0) for r in (an.summ[f.qualname].ret.objs | an.summ[f.qualname].ret.elts)):
                        continue
                    if o.startswith("S:") and kind == "inplace":
                        bad += 1
                        check.violation("MESH-FROZEN", f.qualname, "a query method changes the mesh object (`%s`, line %d%s): geometry returned afterwards differs from the constructed partition" % (text, ln, (", through %s" % via) if via else ""),
                                        "%s:%d" % (f.module.relpath, ln), key="mutates-" + o[2:].split("[")[0].split(".")[0])
        if not bad:
            check.ok("MESH-FROZEN", "%d mesh methods" % n, "no method other than the constructors changes in place an array or container held by the mesh (including through arrays returned by other methods)")


_DTYPE_EXAMPLE = '''
class m:
    def bad(self, pL, pR):
        out = []
        for i in range(1):
            out.append(np.zeros_like(pL[i]))
            for c in range(len(pL[i])):
                out[i][c] = pL[i][c]**2/2
        return out
    def good(self, pL, pR):
        out = [np.zeros(len(pL[0]))]
        for c in range(len(pL[0])):
            out[0][c] = pL[0][c]**2/2
        return out
    def good2(self, pL, pR):
        out = np.zeros_like(pL[0])
        out[:] = pL[0]
        return out
'''
_dt_ok = None


def dtype_example():
    global _dt_ok
    if _dt_ok is not None:
        return
    tmp = tempfile.mkdtemp(prefix="fdcheck_dtype_example_")
    try:
        os.makedirs(os.path.join(tmp, "flowdyn"))
        open(os.path.join(tmp, "flowdyn", "__init__.py"), "w").close()
        with open(os.path.join(tmp, "flowdyn", "example.py"), "w") as fh:
            fh.write("import numpy as np\n" + _DTYPE_EXAMPLE)
        proj = Project(tmp)
        got = {f.name: len(pointwise.dtype_follow(proj, f)) for ci in proj.all_classes() for f in ci.methods.values()}
        if got != {"bad": 1, "good": 0, "good2": 0}:
            raise AnalysisError("DTYPE-FOLLOW built-in example: got %s" % got)
        _dt_ok = True
    finally:
        shutil.rmtree(tmp, ignore_errors=True)


def dtype_rule(check):
    """C02: a flux evaluated on integer-typed states (np.arange, lists of ints) must not truncate"""
    if check.pid != "C02":
        return
    from .fluxes import flux_kernels
    dtype_example()
    n = bad = 0
    for key in ("convection", "burgers", "shallowwater", "euler1d", "euler2d"):
        for f, names in flux_kernels(check.proj, key):
            n += 1
            for ln, buf, store in pointwise.dtype_follow(check.proj, f):
                bad += 1
                check.violation("DTYPE-FOLLOW", f.qualname, "the result buffer `%s` takes the dtype of the input states and receives the floating-point value `%s`: for integer-typed states the flux is truncated silently (F(1,1) = 0 for u^2/2)" % (buf, store),
                                "%s:%d" % (f.module.relpath, ln), key="dtype")
    if not bad:
        check.ok("DTYPE-FOLLOW", "%d flux kernels" % n, "no result buffer inherits the dtype of the input states while receiving floating-point values; built-in example: 1 truncating store reported, 2 safe twins silent")


NARROW_FLOATS = {"float32", "float16", "single", "half", "f4", "f2", "<f4", "<f2", "csingle", "complex64"}


NARROW_INTS = {"int8", "uint8", "int16", "uint16", "byte", "ubyte", "short", "ushort", "i1", "u1", "i2", "u2", "<i2", "<u2"}


def _narrow_type(e, ints=False):
    import ast
    names = NARROW_INTS if ints else NARROW_FLOATS
    if isinstance(e, ast.Attribute) and e.attr in names:
        return e.attr
    if isinstance(e, ast.Name) and e.id in names:
        return e.id
    if isinstance(e, ast.Constant) and isinstance(e.value, str) and e.value in names:
        return e.value
    return None


def dtype_narrow(check):
    """DTYPE-NARROW: every "to round-off" / "exactly" of the statements is about double precision, which is what the
    library computes in.  A conversion to a narrower floating type (`.astype(np.float32)`, `dtype=np.float32`,
    `np.float32(x)`) in the code a property depends on makes its results differ from the formulas by 1e-7 relative
    (1e-3 for half precision): not round-off of the arithmetic the statement describes."""
    import ast
    pid, proj = check.pid, check.proj
    n = bad = 0
    for f in proj.all_functions():
        # (the index tables every 2D / boundary statement reads are built by the mesh classes: in scope for the integer clause)
        mesh_tables = f.module.short in ("mesh", "mesh2d", "meshbase") and pid in ("C01", "C03", "C11", "C13", "C14", "C15", "C16", "C20")
        if not mesh_tables and not in_scope(pid, f) and not (f.name == "__init__" and f.cls is not None and any(in_scope(pid, g) for g in f.cls.methods.values() if g.name != "__init__")):
            continue
        n += 1
        for c in ast.walk(f.node):
            if not isinstance(c, ast.Call):
                continue
            # 8- and 16-bit INTEGERS: whatever they hold in this library (cell / face indices, counts, the integer-valued normals
            # and connectivity tables) is bounded by the mesh size, which no statement bounds by 255 or 65535 -- numpy wraps silently
            ti = None
            if isinstance(c.func, ast.Attribute) and c.func.attr == "astype" and c.args:
                ti = _narrow_type(c.args[0], ints=True)
            # (conversions of existing data and index generators; an ALLOCATION -- zeros / empty / full -- of a small integer table
            # filled with literal 0 / +-1 entries, the face normals, is not one)
            fname = c.func.attr if isinstance(c.func, ast.Attribute) else (c.func.id if isinstance(c.func, ast.Name) else "")
            if fname in ("asarray", "array", "asanyarray", "ascontiguousarray", "arange", "fromiter", "indices", "flatnonzero", "nonzero", "where", "cumsum", "ravel_multi_index") and c.args and not isinstance(c.args[0], (ast.Constant, ast.List, ast.Tuple)):
                for k in c.keywords:
                    if k.arg == "dtype":
                        ti = ti or _narrow_type(k.value, ints=True)
            if ti is None and _narrow_type(c.func, ints=True) and c.args and not isinstance(c.args[0], ast.Constant):
                ti = _narrow_type(c.func, ints=True)
            if ti:
                bad += 1
                check.violation("DTYPE-NARROW", f.qualname, "`%s` (line %d) converts to %s, which holds at most %s: indices, counts and integer tables grow with the mesh, and numpy wraps silently past that (a face index above the limit addresses another face, without an error)" % (unparse_(c)[:60], c.lineno, ti, "255" if "8" in ti or ti in ("i1", "u1", "byte", "ubyte") else "65535"),
                                "%s:%d" % (f.module.relpath, c.lineno), key="narrow-int-%s" % f.name)
                continue
            t = None
            if isinstance(c.func, ast.Attribute) and c.func.attr == "astype" and c.args:
                t = _narrow_type(c.args[0])
            for k in c.keywords:
                if k.arg == "dtype":
                    t = t or _narrow_type(k.value)
            if t is None and _narrow_type(c.func) and c.args:
                t = _narrow_type(c.func)
            if t:
                bad += 1
                check.violation("DTYPE-NARROW", f.qualname, "`%s` (line %d) converts to %s: the values carry a relative error of %s from here on, far above the double-precision round-off the statement allows" % (unparse_(c)[:60], c.lineno, t, "1e-3" if "16" in t or "half" in t or "f2" in t else "6e-8"),
                                "%s:%d" % (f.module.relpath, c.lineno), key="narrow-%s" % f.name)
    if n and not bad:
        check.ok("DTYPE-NARROW", "%d functions in scope" % n, "no conversion to single / half precision, none to 8- / 16-bit integers", nontrivial=False)


def abs_round(check):
    """ABS-ROUND: `round(x, n)` / `np.round(x, n)` / `np.around(x, n)` puts x on an ABSOLUTE grid of 10^-n.  Times, lengths,
    cell sizes, slopes and states are dimensional: at unit scale the rounding only trims the last bits, at small scales
    (a micrometre mesh, a time step of 1e-9, a change of units) it is a relative error of 10^-n / |x| -- the results
    depend on the units the problem is written in, and "exactly" / "to round-off" no longer holds.  (`int(round(x))`, no
    digits, is the rounding of a count and is not reported.)"""
    import ast
    pid, proj = check.pid, check.proj
    n = bad = 0
    for f in proj.all_functions():
        if not in_scope(pid, f) and not (f.name == "__init__" and f.cls is not None and any(in_scope(pid, g) for g in f.cls.methods.values() if g.name != "__init__")):
            continue
        n += 1
        for c in ast.walk(f.node):
            if not isinstance(c, ast.Call):
                continue
            fn = c.func
            nm = fn.id if isinstance(fn, ast.Name) else (fn.attr if isinstance(fn, ast.Attribute) and isinstance(fn.value, ast.Name) and fn.value.id in ("np", "numpy") else None)
            if nm not in ("round", "around", "round_"):
                continue
            digits = c.args[1] if len(c.args) > 1 else next((k.value for k in c.keywords if k.arg in ("ndigits", "decimals")), None)
            if digits is None or (isinstance(digits, ast.Constant) and digits.value in (0, None)):
                continue
            bad += 1
            check.violation("ABS-ROUND", f.qualname, "`%s` (line %d) rounds to a fixed number of decimals: an absolute grid, i.e. a relative error of 10^-n/|x| that grows as the quantity gets small (micro-scale meshes, small time steps, another system of units) -- the result is no longer the statement's formula to round-off, and it changes under a change of units" % (ast.unparse(c)[:60], c.lineno),
                            "%s:%d" % (f.module.relpath, c.lineno), key="abs-round-%s" % f.name)
    if n and not bad:
        check.ok("ABS-ROUND", "%d functions in scope" % n, "no rounding to a fixed number of decimals", nontrivial=False)


def unparse_(n):
    import ast
    return ast.unparse(n)


# ---------------------------------------------------------------------------------------------
# constructor parameters that are accepted and never used: the object does not depend on what the
# caller asked for (a keyword no longer forwarded to the base constructor).  Which property that
# breaks depends on the parameter.
CTOR_PARAM_PROPS = [
    (r"modelphy\..*", "source", {"C19"}),
    (r"modelphy\..*", None, {"C02", "C04", "C10", "C13", "C15", "C16", "C17", "C18"}),
    (r"mesh|mesh2d|meshbase", None, {"C20"}),
    (r"xnum", None, {"C11", "C04"}),
]


def ctor_params(check):
    import ast
    pid, proj = check.pid, check.proj
    n = bad = 0
    for ci in proj.all_classes():
        f = ci.methods.get("__init__")
        if f is None:
            continue
        props = None
        for modpat, pname, ps in CTOR_PARAM_PROPS:
            if re.fullmatch(modpat, ci.module.short):
                props = (pname, ps) if props is None else props
        if not any(re.fullmatch(modpat, ci.module.short) and pid in ps for modpat, pname, ps in CTOR_PARAM_PROPS):
            continue
        if pid == "C13" and ci.name.endswith("2d"):
            continue            # C13 is a statement about the 1D solver
        used = {x.id for x in ast.walk(f.node) if isinstance(x, ast.Name)}
        has_kwargs = f.node.args.kwarg is not None
        for prm in f.params[1:]:
            # the most specific entry for this parameter decides which properties report it
            owners = None
            for modpat, pname, ps in CTOR_PARAM_PROPS:
                if re.fullmatch(modpat, ci.module.short) and pname == prm:
                    owners = ps
            if owners is None:
                for modpat, pname, ps in CTOR_PARAM_PROPS:
                    if re.fullmatch(modpat, ci.module.short) and pname is None:
                        owners = ps
            if owners is None or pid not in owners:
                continue
            n += 1
            if prm not in used and not has_kwargs:
                bad += 1
                check.violation("CTOR-PARAM", f.qualname, "constructor parameter `%s` is accepted but never used (not stored, not forwarded to a base constructor): the object silently keeps the default whatever the caller passes" % prm,
                                "%s:%d" % (f.module.relpath, f.node.lineno), key="unused-" + prm)
        # falsy zero: `self.a = a or <number>` (or `a if a else <number>`) for a NUMERIC parameter (declared with a numeric default, or
        # none): 0 is a value like any other (no convection, no gravity, kappa = 0, time 0) and is silently replaced
        dfl = f.defaults()
        try:
            summ = proj.ctor_summary(ci)
        except AnalysisError:
            summ = {}
        for attr, b in summ.items():
            if not (isinstance(b, tuple) and len(b) == 2 and b[0] == "truthy"):
                continue
            form, ops = b[1]
            first = ops[0] if form in ("or", "and") else ops[0]
            if not (isinstance(first, tuple) and first and first[0] == "param"):
                continue
            prm = first[1]
            d = dfl.get(prm)
            numeric_default = d is None or (isinstance(d, ast.Constant) and isinstance(d.value, (int, float)) and not isinstance(d.value, bool)) \
                or (isinstance(d, ast.UnaryOp) and isinstance(d.operand, ast.Constant)) or isinstance(d, ast.BinOp)
            if prm not in f.params or (prm in dfl and not numeric_default):
                continue
            other = [o for o in ops[1:] if isinstance(o, tuple) and o and o[0] == "const" and isinstance(o[1], (int, float, Fraction)) and not isinstance(o[1], bool)]
            if form == "and" or not other or other[0][1] == 0:
                continue            # (`x or 0.` replaces 0 by 0)
            owners = None
            for modpat, pname, ps in CTOR_PARAM_PROPS:
                if re.fullmatch(modpat, ci.module.short) and (pname == prm or (pname is None and owners is None)):
                    owners = ps
            if owners is None or pid not in owners:
                continue
            bad += 1
            check.violation("CTOR-PARAM", f.qualname, "`self.%s` is the parameter `%s` only when it is TRUTHY, otherwise %s: the legitimate value 0 (and 0.0) is silently replaced by the default" % (attr, prm, other[0][1]),
                            "%s:%d" % (f.module.relpath, f.node.lineno), key="falsy-zero-" + prm)
    if n and not bad:
        check.ok("CTOR-PARAM", "%d constructor parameters" % n, "every constructor parameter in the scope of this property is used (stored or forwarded), none through a truthiness default that swallows 0")


def bc_dict_pure(check):
    """BC-DICT-PURE: the boundary descriptions the caller hands to a discretisation (bcL / bcR / bclist dictionaries) are INPUT:
    neither the constructor nor any method writes into them.  One dictionary commonly describes several boundaries (a wall has
    no parameters: `b = {'type': 'sym'}; fvm(..., bcL=b, bcR=b)`, a closed box with one dictionary for its four tags) and
    outlives the discretisation (another mesh, another solver): an entry stored for one boundary is read back for the others."""
    pid, proj = check.pid, check.proj
    if pid not in ("C01", "C03", "C10", "C15", "C16"):
        return
    an = alias_analysis(proj)
    n = bad = 0
    for ci in proj.all_classes():
        if ci.module.short != "modeldisc":
            continue
        try:
            summ = proj.ctor_summary(ci)
        except AnalysisError:
            summ = {}
        held = {a: b[1] for a, b in summ.items() if isinstance(b, tuple) and b and b[0] == "param" and str(b[1]).lower().startswith("bc")}
        ctor = proj.resolve(ci, "__init__")
        bcparams = [p_ for p_ in (ctor.params[1:] if ctor is not None else []) if p_.lower().startswith("bc")]
        if not held and not bcparams:
            continue
        for f in ci.methods.values():
            n += 1
            for o, (ln, text, via, kind) in an.summ[f.qualname].mut.items():
                if kind != "inplace":
                    continue
                hit = None
                if o.startswith("S:") and o[2:].split("[")[0].split(".")[0] in held:
                    hit = "self.%s (the caller's `%s`)" % (o[2:].split("[")[0], held[o[2:].split("[")[0].split(".")[0]])
                elif f.name == "__init__" and o.startswith("P:") and o[2:].split("[")[0].split(".")[0] in bcparams:
                    hit = "the caller's `%s`" % o[2:].split("[")[0]
                if hit and (f.name == "__init__" or not (via or "").endswith("__init__")):
                    bad += 1
                    check.violation("BC-DICT-PURE", f.qualname, "%s is written into (`%s`, line %d%s): the dictionary belongs to the caller and may describe several boundaries / serve several discretisations -- what is stored for one is read back for the others (one wall dictionary for both ends: the second orientation overwrites the first; one dictionary for four tags: every side gets the first side's normal)"
                                    % (hit, text[:60], ln, (", through %s" % via) if via else ""), "%s:%d" % (f.module.relpath, ln), key="writes-" + o[2:].split("[")[0].split(".")[0])
                    break
    check.floor("methods of discretisations holding boundary dictionaries", n, 10)
    if not bad:
        check.ok("BC-DICT-PURE", "%d methods of the discretisation classes" % n, "none writes into a boundary dictionary received from the caller (directly, through a dictionary view, or through a function it calls)")


# --------------------------------------------------------------------------- LATE-BINDING
_LATE_EXAMPLE = """
table = {}
for _name, _k in [('a', 1.), ('b', 0.)]:
    class _gen(object):
        def __init__(self):
            self.k = _k
    table[_name] = _gen
for _name, _k in [('a', 1.), ('b', 0.)]:
    class _gen2(object):
        def __init__(self, k=_k):
            self.k = k
    table[_name] = _gen2
def make(ks):
    fs = []
    for k in ks:
        fs.append(lambda x: x * k)
    gs = [max(ks, key=lambda x: x * k) for k in ks]
    for k in ks:
        fs.append(lambda x, k=k: x * k)
        fs.append((lambda x: x * k)(2.))
    return fs
"""
_late_ok = None


def _bound_names(t):
    return {n.id for n in ast.walk(t) if isinstance(n, ast.Name)}


def _free_reads(fn):
    """names a def / lambda / class body reads that it does not bind itself (defaults and decorators are evaluated at
    definition time: they are NOT late)"""
    if isinstance(fn, ast.ClassDef):
        out = set()
        for st in fn.body:
            if isinstance(st, (ast.FunctionDef, ast.Lambda, ast.ClassDef)):
                out |= _free_reads(st)
        return out
    a = fn.args
    own = {x.arg for x in a.posonlyargs + a.args + a.kwonlyargs} | ({a.vararg.arg} if a.vararg else set()) | ({a.kwarg.arg} if a.kwarg else set())
    body = fn.body if isinstance(fn.body, list) else [fn.body]
    reads = set()
    for st in body:
        for n in ast.walk(st):
            if isinstance(n, ast.Name):
                if isinstance(n.ctx, ast.Load):
                    reads.add(n.id)
                else:
                    own.add(n.id)
            elif isinstance(n, ast.arg):
                own.add(n.arg)
    return reads - own


def _late_sites(tree):
    """(loop, definition, names) for every def / class / lambda created in a `for` body that reads a loop variable as a FREE
    name and is kept beyond the iteration (stored in a container / attribute, or appended)"""
    out = []
    for loop in ast.walk(tree):
        if not isinstance(loop, ast.For):
            continue
        lv = _bound_names(loop.target)
        kept = []           # expressions stored beyond the iteration
        for n in [x for st in loop.body for x in ast.walk(st)]:
            if isinstance(n, ast.Assign) and any(isinstance(t, (ast.Subscript, ast.Attribute)) for t in n.targets):
                kept.append(n.value)
            elif isinstance(n, ast.Call) and isinstance(n.func, ast.Attribute) and n.func.attr in ("append", "add", "insert", "setdefault", "extend", "register"):
                kept.extend(n.args)
            elif isinstance(n, ast.Call) and isinstance(n.func, ast.Name) and n.func.id == "setattr":
                kept.extend(n.args[2:])
        def direct(e):
            # the stored object itself, or the elements of a tuple / list / dict display (not something computed from it:
            # `sorted(v, key=lambda ...)` and `(lambda ...)(x)` use the function within the iteration)
            if isinstance(e, (ast.Tuple, ast.List, ast.Set)):
                return [y for x in e.elts for y in direct(x)]
            if isinstance(e, ast.Dict):
                return [y for x in e.values for y in direct(x)]
            return [e]
        flat = [x for k in kept for x in direct(k)]
        keptnames = {x.id for x in flat if isinstance(x, ast.Name)}
        keptlams = {id(x) for x in flat if isinstance(x, ast.Lambda)}
        for st in loop.body:
            for n in ast.walk(st):
                if isinstance(n, (ast.FunctionDef, ast.ClassDef)) and n.name in keptnames or isinstance(n, ast.Lambda) and id(n) in keptlams:
                    late = _free_reads(n) & lv
                    if late:
                        out.append((loop, n, sorted(late)))
    return out


def late_binding(check):
    """LATE-BINDING: a function / class created in a loop reads the loop variable when it is CALLED, not when it is created: every
    object kept from the loop sees the value of the LAST iteration (Python closes over variables, not values)"""
    global _late_ok
    if _late_ok is None:
        got = [(getattr(n, "name", "lambda"), names) for loop, n, names in _late_sites(ast.parse(_LATE_EXAMPLE))]
        if got != [("_gen", ["_k"]), ("lambda", ["k"])]:
            raise AnalysisError("LATE-BINDING built-in example: got %s" % got)
        _late_ok = True
    proj = check.proj
    mods = [m for m in proj.modules.values() if any(re.fullmatch(mod, m.short) for mod, _, _ in SCOPES.get(check.pid, []))]
    nloops = 0
    for m in mods:
        tree = ast.parse(m.source)
        nloops += sum(1 for n in ast.walk(tree) if isinstance(n, ast.For))
        for loop, n, names in _late_sites(tree):
            what = "class %s" % n.name if isinstance(n, ast.ClassDef) else "function %s" % n.name if isinstance(n, ast.FunctionDef) else "lambda"
            check.violation("LATE-BINDING", "%s:%d %s" % (m.short, n.lineno, what),
                            "created in the loop at line %d and kept beyond the iteration, but it reads the loop variable%s %s when it is called: Python binds the NAME, so every object kept from this loop uses the value of the last iteration (pass it as a default argument or build the object in a factory function)" % (loop.lineno, "s" if len(names) > 1 else "", ", ".join(names)),
                            "%s:%d" % (m.relpath, n.lineno), key="late-%s-%s" % (m.short, getattr(n, "name", "lambda")))
    check.ok("LATE-BINDING", "modules in the scope of %s" % check.pid, "%d `for` loops in %d modules: no kept function / class reads its loop variable late" % (nloops, len(mods)))


def run(check):
    check.guarded("LATE-BINDING", "scope of %s" % check.pid, lambda: late_binding(check))
    check.guarded("BC-DICT-PURE", "modeldisc", lambda: bc_dict_pure(check))
    check.guarded("CTOR-PARAM", "constructors", lambda: ctor_params(check))
    check.guarded("DTYPE-FOLLOW", "flux kernels", lambda: dtype_rule(check))
    check.guarded("DTYPE-NARROW", "scope of %s" % check.pid, lambda: dtype_narrow(check))
    check.guarded("ABS-ROUND", "scope of %s" % check.pid, lambda: abs_round(check))
    check.guarded("STATE-MEMO", "scope of %s" % check.pid, lambda: state_memo(check))
    check.guarded("ALIAS", "scope of %s" % check.pid, lambda: alias_rules(check))
    check.guarded("KERNEL-POINTWISE", "kernels of %s" % check.pid, lambda: kernel_pointwise(check))
