"""Rules shared by several properties: they run before the property's own body, on the part
of the source each property depends on (scope table below: module, class pattern, method
pattern -- chosen so that a finding in scope breaks *that* property for some call history).

STATE-MEMO : no stale memoised state (memo.py)
"""
import os
import re
import shutil
import tempfile

from . import memo, pointwise
from .project import AnalysisError, Project

ALLM = ".*"
INTEG_STEP = r"(step|add_res|calcrhs|calc_jacobian|solve_implicit)$"
SCOPES = {
    "C01": [("modeldisc", ALLM, ALLM), ("mesh", ALLM, ALLM), ("mesh2d", ALLM, ALLM), ("meshbase", ALLM, ALLM), ("integration", ALLM, INTEG_STEP)],
    "C02": [(r"modelphy\..*", ALLM, r"(numflux.*|_[A-Za-z].*)$")],
    "C03": [("modeldisc", ALLM, ALLM), ("xnum", ALLM, ALLM), (r"modelphy\..*", ALLM, r"(bc_.*|numflux.*|namedBC|cons2prim|prim2cons|_[A-Za-z].*)$"), ("integration", ALLM, INTEG_STEP)],
    "C04": [("xnum", ALLM, ALLM), ("modeldisc", ALLM, ALLM), (r"modelphy\..*", ALLM, r"(numflux.*|_[A-Za-z].*)$")],
    "C05": [("integration", ALLM, r"(step|add_res|calcrhs)$")],
    "C06": [("integration", ALLM, INTEG_STEP)],
    "C07": [("integration", ALLM, r"(_solve|solve|restart|reset|_check_end|add_res|step|calcrhs)$"), ("field", ALLM, ALLM)],
    "C08": [("integration", ALLM, ALLM), ("monitors", ALLM, ALLM), ("field", ALLM, ALLM)],
    "C10": [(r"modelphy\..*", ALLM, r"(numflux.*|_[A-Za-z].*|timestep)$"), ("modeldisc", ALLM, "calc_timestep$"), ("integration", ALLM, r"(step|add_res)$")],
    "C11": [("xnum", ALLM, ALLM), ("modeldisc", ALLM, r"(calc_grad|calc_bc_grad|interp.*|rhs|calc_bc)$")],
    "C12": [],
    "C13": [("modeldisc", ALLM, ALLM), ("xnum", ALLM, ALLM), (r"modelphy\..*", ALLM, ALLM)],
    "C14": [("modeldisc", ALLM, ALLM), ("mesh2d", ALLM, ALLM), ("xnum", ALLM, ALLM)],
    "C15": [("modeldisc", ALLM, ALLM), ("xnum", ALLM, ALLM), ("mesh2d", ALLM, ALLM), (r"modelphy\.euler", ALLM, ALLM)],
    "C16": [(r"modelphy\..*", ALLM, r"(bc_.*|namedBC|_[A-Za-z].*)$"), ("modeldisc", ALLM, r"calc_bc.*$")],
    "C17": [(r"modelphy\..*", ALLM, r"(?!numflux|bc_|src_|timestep|namedBC).*$"), ("field", ALLM, ALLM)],
    "C18": [(r"modelphy\..*", ALLM, r"(timestep|_[A-Za-z].*)$"), ("modeldisc", ALLM, "calc_timestep$"), ("integration", ALLM, r"(_solve|add_res)$")],
    "C19": [("modeldisc", ALLM, r"(add_source|rhs)$"), (r"modelphy\..*", ALLM, r"(src_.*|__init__|initdisc)$")],
    "C20": [("mesh", ALLM, ALLM), ("mesh2d", ALLM, ALLM), ("meshbase", ALLM, ALLM)],
}


def in_scope(pid, func):
    for mod, cpat, mpat in SCOPES.get(pid, []):
        if re.fullmatch(mod, func.module.short) and (func.cls is None or re.fullmatch(cpat, func.cls.name)) and re.match(mpat, func.name):
            return True
    return False


def scope_classes(pid, proj):
    out = []
    for ci in proj.all_classes():
        if any(re.fullmatch(mod, ci.module.short) and re.fullmatch(cpat, ci.name) for mod, cpat, _ in SCOPES.get(pid, [])):
            out.append(ci)
    return out


_EXAMPLE = '''
class good:
    def __init__(self, n):
        self.n = n
        self._w = None
    def weights(self, data):
        nc = data[0].size
        if self._w is None or self._w.size != nc:
            self._w = np.zeros(nc)
        return self._w

class bad:
    _tab = {}
    def __init__(self):
        self._d = None
    def dist(self, mesh, data):
        if self._d is None or self._d.size != data[0].size:
            self._d = mesh.xf[1:] - mesh.xc
        return self._d
    def table(self, nx, ny):
        return self._tab.setdefault(nx * ny, np.arange(ny) * (nx + 1))
'''
_example_ok = None


def positive_example():
    """the memo analysis must report exactly the two stale caches of the built-in example and
    stay silent on its complete cache (a rule that matches nothing on the library must still be
    shown to match something on every run)"""
    global _example_ok
    if _example_ok is not None:
        return _example_ok
    tmp = tempfile.mkdtemp(prefix="fdcheck_memo_example_")
    try:
        os.makedirs(os.path.join(tmp, "flowdyn"))
        with open(os.path.join(tmp, "flowdyn", "__init__.py"), "w") as fh:
            fh.write("")
        with open(os.path.join(tmp, "flowdyn", "example.py"), "w") as fh:
            fh.write("import numpy as np\n" + _EXAMPLE)
        proj = Project(tmp)
        fs, _ = memo.analyse(proj, list(proj.all_classes()))
        got = sorted((f.func.qualname, f.attr) for f in fs)
        _example_ok = got == [("example.bad.dist", "_d"), ("example.bad.table", "_tab")]
        if not _example_ok:
            raise AnalysisError("STATE-MEMO built-in example: expected the two stale caches of class `bad`, got %s" % got)
    finally:
        shutil.rmtree(tmp, ignore_errors=True)
    return _example_ok


def state_memo(check):
    pid = check.pid
    proj = check.proj
    classes = scope_classes(pid, proj)
    if not classes:
        return
    positive_example()
    fs, st = memo.analyse(proj, classes)
    nrep = 0
    for f in fs:
        if not in_scope(pid, f.func):
            continue
        nrep += 1
        check.violation("STATE-MEMO", f.func.qualname, f.message, "%s:%d" % (f.func.module.relpath, f.line), key=f.key)
    check.inventory["STATE-MEMO classes / methods scanned"] = "%d / %d" % (st["classes"], st["methods"])
    if not nrep:
        check.ok("STATE-MEMO", "%d classes in the scope of %s" % (len(classes), pid),
                 "no memoised state with an incomplete re-use condition: %d persistent stores examined, %d covered by their guard or key, %d owned by a named rule (%s); built-in example: 2 stale caches reported, 1 complete cache silent"
                 % (st["memo_stores"], len(st["covered"]), len(st["exempt"]), "; ".join(sorted(set(st["exempt"]))) or "-"), nontrivial=True)


# ---------------------------------------------------------------------------------------------
LIMITER_NAMES = ["minmod", "vanalbada", "vanleer", "superbee"]
_POINTWISE_EXAMPLE = '''
class m2d:
    def ok(self, data):
        return np.sum(data[1] * data[1], axis=0) / data[0]

class m1d:
    def timestep(self, data, dx, condition):
        return condition * dx / np.abs(data[0])
    def bad1(self, data, dx, condition):
        vmax = np.max(np.abs(data[0]))
        return condition * dx / vmax
    def bad2(self, data, dx, condition):
        return condition * np.gradient(dx) / self.speed(data)
    def speed(self, data):
        if np.all(data[0] > 0):
            return data[0].max()
        return abs(data[0]).max()
'''
_pw_ok = None


def pointwise_example():
    global _pw_ok
    if _pw_ok is not None:
        return
    tmp = tempfile.mkdtemp(prefix="fdcheck_pw_example_")
    try:
        os.makedirs(os.path.join(tmp, "flowdyn"))
        open(os.path.join(tmp, "flowdyn", "__init__.py"), "w").close()
        with open(os.path.join(tmp, "flowdyn", "example.py"), "w") as fh:
            fh.write("import numpy as np\n" + _POINTWISE_EXAMPLE)
        proj = Project(tmp)
        got = {}
        for ci in proj.all_classes():
            for f in ci.methods.values():
                got[f.qualname] = len(pointwise.scan(proj, f))
        want = {"example.m2d.ok": 0, "example.m1d.timestep": 0, "example.m1d.bad1": 1, "example.m1d.bad2": 3, "example.m1d.speed": 2}
        if got != want:
            raise AnalysisError("KERNEL-POINTWISE built-in example: expected %s, got %s" % (want, got))
        _pw_ok = True
    finally:
        shutil.rmtree(tmp, ignore_errors=True)


def pointwise_kernels(pid, proj):
    """the kernels property `pid` describes as point-wise: [(FuncInfo, role)]"""
    out = []
    if pid == "C12":
        for nm in LIMITER_NAMES:
            try:
                out.append((proj.func("xnum." + nm), "limiter"))
            except AnalysisError:
                pass          # a vanished limiter is reported by the property's own inventory floor
    models = [ci for ci in proj.all_classes() if ci.module.short.startswith("modelphy.")]
    if pid == "C18":
        for ci in models:
            if "timestep" in ci.methods:
                out.append((ci.methods["timestep"], "per-cell time step"))
    if pid == "C17":
        seen = set()
        for ci in models:
            for nm in ("cons2prim", "prim2cons"):
                if nm in ci.methods:
                    out.append((ci.methods[nm], "conversion"))
            reg = ci.registries.get("_vardict")
            if reg:
                for key, f in reg["entries"].items():
                    if f.qualname not in seen:
                        seen.add(f.qualname)
                        out.append((f, "output variable"))
    return out


def kernel_pointwise(check):
    pid, proj = check.pid, check.proj
    ks = pointwise_kernels(pid, proj)
    if not ks:
        return
    pointwise_example()
    n = 0
    for f, role in ks:
        for qn, ln, text, why in pointwise.scan(proj, f):
            n += 1
            check.violation("KERNEL-POINTWISE", f.qualname, "%s must be point-wise, but `%s` (%s:%d): %s" % (role, text, qn, ln, why),
                            "%s:%d" % (f.module.relpath, ln), key="nonpointwise")
    check.inventory["KERNEL-POINTWISE kernels scanned"] = len(ks)
    if not n:
        check.ok("KERNEL-POINTWISE", "%d kernels (%s)" % (len(ks), ", ".join(sorted({r for _, r in ks}))),
                 "no reduction or neighbour access applied to an argument-dependent value; built-in example: 6 couplings reported, 2 point-wise kernels and 1 np.all guard silent")


def run(check):
    check.guarded("STATE-MEMO", "scope of %s" % check.pid, lambda: state_memo(check))
    check.guarded("KERNEL-POINTWISE", "kernels of %s" % check.pid, lambda: kernel_pointwise(check))
