"""ALIAS — which objects a value may be, and which objects a function changes in place.

A flow-ordered walk of every function keeps, for each local, the set of *origins* its value
is known to be (not a copy of): a parameter or something reached from it (`P:data`,
`P:data[]` an element / view, `P:f.data[]`), an attribute of self (`S:pL[]`), a container
created in the function (`N:line:col`), the result of a callable the library does not
define (`X:line`, owned by whoever returned it).  Only constructs that are *definitely*
aliases are followed -- plain names, attributes, constant / loop-index / slice subscripts,
list displays and comprehensions, calls whose callee summary says it returns (part of) an
argument; arithmetic, `.copy()`, numpy functions and fancy indexing give fresh values -- so an
in-place change reported on an origin is a change of that object on the path the text shows.
Subscripts by a value that may be a `slice` object (tracked as a *kind* through dictionary
literals, attributes set in constructors and returns) are views.

Per function the walk yields a summary: origins the return value is / contains, and in-place
changes (`x += e`, `x[i] = e`, `x.attr = e`, `.append/.update/.sort/.fill`, and the changes of
callees mapped through the call's arguments).  Summaries are iterated to a fixed point over
the project; calls are resolved statically for `self.m()` / `Cls.m(self)` (plus overrides in
subclasses), by method name for other receivers, and through the registries for
`self._bcdict.dict[name](self, ...)`."""
import ast

from .project import unparse

FRESH_METHODS = {"copy", "astype", "flatten", "tolist", "sum", "mean", "max", "min", "round", "clip", "repeat", "dot", "conj", "cumsum", "nonzero", "format", "keys", "values", "items", "get", "index", "count", "average"}
NP_ALIASING = {"asarray", "asanyarray", "ascontiguousarray", "asfarray", "atleast_1d", "atleast_2d", "squeeze", "ravel", "reshape", "transpose", "broadcast_to", "real", "array"}
MUTATORS = {"append", "extend", "insert", "update", "setdefault", "pop", "popitem", "clear", "sort", "reverse", "remove", "fill", "resize", "put", "itemset", "partition"}


class Val:
    __slots__ = ("objs", "elts", "kinds", "ekinds", "call")

    def __init__(self, objs=(), elts=(), kinds=(), ekinds=(), call=None):
        self.objs, self.elts, self.kinds, self.ekinds, self.call = frozenset(objs), frozenset(elts), frozenset(kinds), frozenset(ekinds), call

    def union(self, o):
        return Val(self.objs | o.objs, self.elts | o.elts, self.kinds | o.kinds, self.ekinds | o.ekinds, self.call or o.call)

    def __repr__(self):
        return "Val(%s|%s|%s)" % (sorted(self.objs), sorted(self.elts), sorted(self.kinds))


EMPTY = Val()


class Summary:
    def __init__(self):
        self.ret = EMPTY            # origins rooted at P: / S: only
        self.mut = {}               # origin -> (line, text, via, kind)   kind: inplace | rebind
        self.fresh_list_ret = False

    def sig(self):
        return (self.ret.objs, self.ret.elts, self.ret.kinds, self.ret.ekinds, frozenset(self.mut))


def _persistent(o):
    return o.startswith("P:") or o.startswith("S:") or o.startswith("X:")


class Analysis:
    def __init__(self, proj):
        self.p = proj
        self.summ = {}
        self.attr_kinds = {}        # (class qualname, attr) -> (kinds, ekinds) from constructors
        self.events = {}            # qualname -> [(origin, line, text, via)]   all in-place changes incl. local containers
        self.shared_inplace = {}    # qualname -> [(line, changed name, other name, text)]  a = b = <new array>; a -= ...; ... b ...
        self.clobbers = {}          # qualname -> [(line, text)]
        self.by_name = {}
        for f in proj.all_functions():
            self.by_name.setdefault(f.name, []).append(f)
            self.summ[f.qualname] = Summary()
        self.registry_funcs = {}
        for ci in proj.all_classes():
            for reg, info in ci.registries.items():
                for k, f in info["entries"].items():
                    self.registry_funcs.setdefault(reg, {})[f.qualname] = f
        for it in range(6):
            changed = False
            for f in proj.all_functions():
                old = self.summ[f.qualname].sig()
                self._function(f)
                if self.summ[f.qualname].sig() != old:
                    changed = True
            if not changed:
                break

    # ------------------------------------------------------------------ per function
    def _function(self, f):
        w = _Walker(self, f)
        w.run()
        s = self.summ[f.qualname]
        s.ret = Val({o for o in w.ret.objs if _persistent(o)}, {o for o in w.ret.elts if _persistent(o)}, w.ret.kinds, w.ret.ekinds)
        s.mut = {o: e for o, e in w.mut.items() if _persistent(o)}
        self.events[f.qualname] = list(w.mut_all)
        self.shared_inplace[f.qualname] = list(dict.fromkeys(w.shared_inplace))
        self.clobbers[f.qualname] = list(w.clobbers)
        if f.name == "__init__" and f.cls is not None:
            for attr, v in w.self_env.items():
                k = (f.cls.qualname, attr)
                old = self.attr_kinds.get(k, (frozenset(), frozenset()))
                self.attr_kinds[k] = (old[0] | v.kinds, old[1] | v.ekinds)

    def attr_kind(self, ci, attr):
        ks, eks = frozenset(), frozenset()
        if ci is None:
            cands = [c for c in self.p.all_classes()]
        else:
            cands = self.p.mro(ci) + self.p.subclasses(ci, strict=True)
        for c in cands:
            v = self.attr_kinds.get((c.qualname, attr))
            if v:
                ks, eks = ks | v[0], eks | v[1]
        return ks, eks

    def callees(self, f, node, w):
        """-> ([FuncInfo], receiver Val or None, argument nodes without the receiver)"""
        fn = node.func
        args = list(node.args)
        if isinstance(fn, ast.Attribute):
            recv = fn.value
            # Cls.m(self, ...)
            if isinstance(recv, ast.Name) and f.cls is not None and recv.id != w.sn:
                ci = self.p.resolve_class_expr(recv, f.module)
                if ci is not None:
                    m = self.p.resolve(ci, fn.attr)
                    if m is not None and args:
                        return [m], w.ev(args[0]), args[1:]
            if isinstance(recv, ast.Name) and recv.id == w.sn and f.cls is not None:
                out = []
                m = self.p.resolve(f.cls, fn.attr)
                if m is not None:
                    out.append(m)
                for c in self.p.subclasses(f.cls, strict=True):
                    if fn.attr in c.methods and c.methods[fn.attr] not in out:
                        out.append(c.methods[fn.attr])
                return out, Val({"S:"}), args
            if fn.attr in MUTATORS or fn.attr in FRESH_METHODS:
                return [], None, args
            # module function  mod.f(...)
            if isinstance(recv, ast.Name):
                m = self.p.resolve_module_alias(recv.id, f.module) if hasattr(self.p, "resolve_module_alias") else None
                if m is not None and fn.attr in getattr(m, "functions", {}):
                    return [m.functions[fn.attr]], None, args
            cands = [g for g in self.by_name.get(fn.attr, []) if g.cls is not None]
            return cands, w.ev(recv), args
        if isinstance(fn, ast.Name):
            g = self.p.resolve_function_name(fn.id, f.module)
            if g is not None:
                return [g], None, args
            return [], None, args
        # (self._bcdict.dict[name])(self, ...)
        if isinstance(fn, ast.Subscript):
            for n in ast.walk(fn.value):
                if isinstance(n, ast.Attribute) and n.attr in self.registry_funcs:
                    return list(self.registry_funcs[n.attr].values()), (w.ev(args[0]) if args else None), args[1:]
        return [], None, args


def _map_origin(o, f, recv, argvals):
    """origin of a callee summary -> origins in the caller"""
    if o.startswith("S:"):
        rest = o[2:]
        if recv is None:
            return set()
        out = set()
        for r in recv.objs:
            if r == "S:":
                out.add("S:" + rest)
            elif rest:
                out.add(r + ("." if not rest.startswith("[") else "") + rest)
            else:
                out.add(r)
        return out
    if o.startswith("P:"):
        body = o[2:]
        i = 0
        while i < len(body) and (body[i].isalnum() or body[i] == "_"):
            i += 1
        name, suffix = body[:i], body[i:]
        v = argvals.get(name)
        if v is None:
            return set()
        out = set()
        if suffix.startswith("[]"):
            out |= {e + suffix[2:] for e in v.elts}
        out |= {b + suffix for b in v.objs}
        return out
    return set()


class _Walker:
    def __init__(self, an, f):
        self.an, self.f = an, f
        self.p = an.p
        self.sn = f.params[0] if f.has_self else None
        self.env = {}
        self.self_env = {}
        self.loopvars = set()
        self.ret = EMPTY
        self.mut = {}
        self.mut_all = []
        self.shared_inplace = []
        self.same = {}              # local name -> the other local names bound to the very same object
        self.clobbers = []
        self.call_results = {}      # local name -> (line, callee text) for values obtained from a call
        self.alloc_count = {}       # allocation site -> number of times evaluated (a loop re-creates the object)
        self.pending = {}           # name -> clobber candidate waiting for a later read of the name
        for pn in f.params:
            if pn != self.sn:
                self.env[pn] = Val({"P:" + pn})
        a = f.node.args
        for x in a.kwonlyargs + ([a.vararg] if a.vararg else []) + ([a.kwarg] if a.kwarg else []):
            self.env[x.arg] = Val({"P:" + x.arg})

    def run(self):
        self.block(self.f.node.body)

    def new(self, node):
        k = (node.lineno, node.col_offset)
        self.alloc_count[k] = self.alloc_count.get(k, 0) + 1
        return "N:%d:%d#%d" % (node.lineno, node.col_offset, self.alloc_count[k])

    # ------------------------------------------------------------------ expressions
    def alias_index(self, s):
        if isinstance(s, ast.Constant) and isinstance(s.value, int):
            return True
        if isinstance(s, ast.Constant) and s.value is Ellipsis:
            return True
        if isinstance(s, ast.Slice):
            return True
        if isinstance(s, ast.Name):
            if s.id in self.loopvars:
                return True
            return "slice" in self.env.get(s.id, EMPTY).kinds
        if isinstance(s, ast.Tuple):
            return all(self.alias_index(e) for e in s.elts)
        if isinstance(s, ast.BinOp) and isinstance(s.left, ast.Name) and s.left.id in self.loopvars and isinstance(s.right, ast.Constant):
            return True
        return False

    def ev(self, node):
        if node is None:
            return EMPTY
        if isinstance(node, ast.Name):
            if node.id == self.sn:
                return Val({"S:"})
            if node.id in self.pending:
                # the result of a call is read after the object it is (its own argument) was overwritten
                self.clobbers.append(self.pending.pop(node.id) + (node.lineno,))
            return self.env.get(node.id, EMPTY)
        if isinstance(node, ast.Attribute):
            v = self.ev(node.value)
            objs = set()
            for o in v.objs:
                objs.add("S:" + node.attr if o == "S:" else o + "." + node.attr)
            out = Val(objs)
            if isinstance(node.value, ast.Name) and node.value.id == self.sn:
                if node.attr in self.self_env:
                    out = out.union(self.self_env[node.attr])
                ks, eks = self.an.attr_kind(self.f.cls, node.attr)
                out = Val(out.objs, out.elts, out.kinds | ks, out.ekinds | eks)
            return out
        if isinstance(node, ast.Subscript):
            v = self.ev(node.value)
            if self.alias_index(node.slice) or isinstance(node.slice, ast.Constant):
                return Val({o + "[]" for o in v.objs} | v.elts, (), v.ekinds, ())
            # unknown index: the element kinds still flow (dictionary lookup by a variable key)
            return Val((), (), v.ekinds, ())
        if isinstance(node, (ast.List, ast.Tuple)):
            elts, eks = set(), set()
            for e in node.elts:
                x = self.ev(e)
                elts |= x.objs
                eks |= x.kinds
            return Val({self.new(node)}, elts, (), eks)
        if isinstance(node, ast.Dict):
            elts, eks = set(), set()
            for e in node.values:
                x = self.ev(e)
                elts |= x.objs
                eks |= x.kinds | ({"other"} if not x.kinds else set())
            return Val({self.new(node)}, elts, (), eks)
        if isinstance(node, ast.ListComp):
            saved = dict(self.env)
            lv = set(self.loopvars)
            for g in node.generators:
                self.bind_iter(g.target, g.iter)
            x = self.ev(node.elt)
            self.env, self.loopvars = saved, lv
            return Val({self.new(node)}, x.objs, (), x.kinds)
        if isinstance(node, ast.IfExp):
            return self.ev(node.body).union(self.ev(node.orelse))
        if isinstance(node, ast.BoolOp):
            out = EMPTY
            for x in node.values:
                out = out.union(self.ev(x))
            return out
        if isinstance(node, ast.BinOp):
            if isinstance(node.op, ast.Mult) and isinstance(node.left, ast.List):
                return Val({self.new(node)})
            self.ev(node.left)
            self.ev(node.right)
            return Val({self.new(node)})        # the result of an arithmetic operation: a new value (a new array)
        if isinstance(node, ast.Call):
            return self.call(node)
        if isinstance(node, ast.Starred):
            return self.ev(node.value)
        return EMPTY

    def call(self, node):
        fn = node.func
        if isinstance(fn, ast.Name) and fn.id == "slice":
            return Val((), (), {"slice"})
        if isinstance(fn, ast.Name) and fn.id in ("list", "tuple") and len(node.args) == 1:
            v = self.ev(node.args[0])
            return Val({self.new(node)}, v.elts | {o + "[]" for o in v.objs}, (), v.ekinds)
        if isinstance(fn, ast.Name) and fn.id in ("enumerate", "zip", "reversed", "iter"):
            out = EMPTY
            for a in node.args:
                out = out.union(self.ev(a))
            return Val(out.objs, out.elts, (), out.ekinds, None)
        if isinstance(fn, (ast.Name, ast.Attribute)) and self.p.resolve_class_expr(fn, self.f.module) is not None:
            for a in node.args:
                self.ev(a)
            return EMPTY                     # constructor call: a new object
        cands, recv, args = self.an.callees(self.f, node, self)
        if isinstance(fn, ast.Attribute) and fn.attr in MUTATORS:
            tgt = self.ev(fn.value)
            vals = [self.ev(a) for a in node.args]
            self.mutate(tgt.objs, node, "." + fn.attr + "()")
            if fn.attr in ("append", "insert", "extend", "setdefault", "update") and vals:
                add = vals[-1].objs if fn.attr != "extend" else vals[-1].elts
                self.add_elts(tgt.objs, add)
            return EMPTY
        if not cands and isinstance(fn, ast.Attribute) and fn.attr in ("values", "items", "get") and not _np_root(fn):
            # views of a dictionary: what they yield / return ARE the stored objects
            tgt = self.ev(fn.value)
            for a in node.args:
                self.ev(a)
            inner = set(tgt.elts) | {o + "[]" for o in tgt.objs}
            if fn.attr == "get":
                return Val(inner, (), (), tgt.ekinds)
            return Val({self.new(node)}, inner, (), tgt.ekinds)
        if not cands:
            # numpy functions that may hand back THEIR ARGUMENT (no copy when it already is an array of the requested type)
            # or a view of it, and the `out=` convention (the result IS the out array)
            if isinstance(fn, ast.Attribute) and _np_root(fn) and fn.attr in NP_ALIASING and node.args:
                v = self.ev(node.args[0])
                for a in node.args[1:]:
                    self.ev(a)
                if not any(k.arg == "copy" and isinstance(k.value, ast.Constant) and k.value.value is True for k in node.keywords):
                    return v
            if isinstance(fn, ast.Attribute) and not _np_root(fn) and fn.attr in ("view", "reshape", "ravel", "squeeze", "transpose", "swapaxes") :
                return self.ev(fn.value)
            outk = [k.value for k in node.keywords if k.arg == "out"]
            if outk and isinstance(fn, ast.Attribute) and _np_root(fn):
                for a in node.args:
                    self.ev(a)
                tgt = self.ev(outk[0])
                self.mutate(tgt.objs, node, "out= of %s" % unparse(fn)[:30])
                return tgt
            if (isinstance(fn, ast.Attribute) and (fn.attr in FRESH_METHODS or _np_root(fn))) or (isinstance(fn, ast.Name) and fn.id in _BUILTINS):
                # the result is new, but the arguments are still evaluated (an in-place change nested in one)
                for a in list(node.args) + [k.value for k in node.keywords]:
                    self.ev(a)
                if isinstance(fn, ast.Attribute) and not _np_root(fn):
                    self.ev(fn.value)
                return EMPTY
            if isinstance(fn, (ast.Subscript, ast.Attribute, ast.Name)):
                # a callable the library does not define: its result belongs to whoever returned it
                for a in node.args:
                    self.ev(a)
                return Val({"X:%d" % node.lineno}, (), (), (), unparse(fn)[:50])
            return EMPTY
        out = EMPTY
        for g in cands:
            s = self.an.summ[g.qualname]
            names = g.params[1:] if g.has_self else g.params
            argvals = {}
            for nm, a in zip(names, args):
                argvals[nm] = self.ev(a)
            for k in node.keywords:
                if k.arg:
                    argvals[k.arg] = self.ev(k.value)
            objs, elts = set(), set()
            for o in s.ret.objs:
                objs |= _map_origin(o, g, recv, argvals)
            for o in s.ret.elts:
                elts |= _map_origin(o, g, recv, argvals)
            out = out.union(Val(objs, elts, s.ret.kinds, s.ret.ekinds))
            for o, (ln, text, via, kind) in s.mut.items():
                tg = _map_origin(o, g, recv, argvals)
                if tg:
                    self.mutate(tg, node, "call of %s, which changes its argument in place at line %d (`%s`)" % (g.qualname, ln, text), via=via or g.qualname, leaf=(via or g.qualname, ln, text), kind=kind)
        return Val(out.objs, out.elts, out.kinds, out.ekinds, unparse(fn)[:50])

    # ------------------------------------------------------------------ effects
    def mutate(self, objs, node, how, via=None, leaf=None, kind="inplace"):
        text = unparse(node)[:70] if not isinstance(node, str) else node
        ln = getattr(node, "lineno", 0)
        if leaf is not None:
            text = "%s -> %s:%d `%s`" % (text, leaf[0], leaf[1], leaf[2].split(" -> ")[-1])
        for o in objs:
            if o == "S:" or o.count(".") > 3:
                continue
            self.mut_all.append((o, ln, text, via, kind))
            if o not in self.mut or (self.mut[o][3] == "rebind" and kind == "inplace"):
                self.mut[o] = (ln, text, via, kind)
            # clobber: another local obtained from a call is this very object
            for nm, (cl, ctext) in self.call_results.items():
                v = self.env.get(nm, EMPTY)
                if o in v.objs and o.startswith("N:") and nm not in self.pending:
                    self.pending[nm] = (ln, nm, cl, ctext, text)

    def add_elts(self, objs, add):
        if not add:
            return
        for nm, v in list(self.env.items()):
            if v.objs & set(objs):
                self.env[nm] = Val(v.objs, v.elts | set(add), v.kinds, v.ekinds, v.call)

    # ------------------------------------------------------------------ statements
    def bind_iter(self, target, it):
        v = self.ev(it)
        is_range = isinstance(it, ast.Call) and isinstance(it.func, ast.Name) and it.func.id == "range"
        is_enum = isinstance(it, ast.Call) and isinstance(it.func, ast.Name) and it.func.id == "enumerate"
        elem = Val(v.elts | {o + "[]" for o in v.objs}, (), v.ekinds, ())
        if isinstance(target, ast.Name):
            if is_range:
                self.loopvars.add(target.id)
                self.env[target.id] = EMPTY
            else:
                self.env[target.id] = elem
        elif isinstance(target, (ast.Tuple, ast.List)):
            for k, e in enumerate(target.elts):
                if isinstance(e, ast.Name):
                    if is_enum and k == 0:
                        self.loopvars.add(e.id)
                        self.env[e.id] = EMPTY
                    else:
                        self.env[e.id] = elem if (is_enum or len(target.elts) == 1) else Val(elem.objs, elem.elts)

    def _unbind(self, name):
        g = self.same.pop(name, None)
        if g:
            for o in g:
                if o in self.same:
                    self.same[o].discard(name)

    def assign(self, t, v, st):
        if isinstance(t, ast.Name):
            self._unbind(t.id)
            if isinstance(st, ast.Assign):
                # the very same object: the other targets of a chained assignment, and a plain name on the right-hand side
                group = {x.id for x in st.targets if isinstance(x, ast.Name)} if len(st.targets) > 1 else {t.id}
                if isinstance(st.value, ast.Name) and isinstance(t, ast.Name) and t in st.targets:
                    group |= {st.value.id} | set(self.same.get(st.value.id, ()))
                if len(group) > 1:
                    for nm in group:
                        self.same.setdefault(nm, set()).update(group - {nm})
            self.env[t.id] = v
            self.pending.pop(t.id, None)
            self.loopvars.discard(t.id)
            if v.call is not None:
                self.call_results[t.id] = (st.lineno, v.call)
            else:
                self.call_results.pop(t.id, None)
        elif isinstance(t, (ast.Tuple, ast.List)):
            for e in t.elts:
                self.assign(e, Val(v.elts | {o + "[]" for o in v.objs}, (), v.ekinds, ()), st)
        elif isinstance(t, ast.Attribute):
            base = self.ev(t.value)
            if isinstance(t.value, ast.Name) and t.value.id == self.sn:
                self.self_env[t.attr] = v
                if self.f.name != "__init__":
                    self.mutate({"S:" + t.attr}, st, "rebinding", kind="rebind")
            else:
                self.mutate({o + "." + t.attr for o in base.objs}, st, "attribute store", kind="rebind")
        elif isinstance(t, ast.Subscript):
            cont = self.ev(t.value)
            self.mutate(cont.objs, st, "element store")
            self.add_elts(cont.objs, v.objs)
            # stores through self.X[...] remember what the attribute now contains
            r = t.value
            if isinstance(r, ast.Attribute) and isinstance(r.value, ast.Name) and r.value.id == self.sn:
                old = self.self_env.get(r.attr, EMPTY)
                self.self_env[r.attr] = Val(old.objs, old.elts | v.objs, old.kinds, old.ekinds)

    def block(self, stmts):
        for st in stmts:
            self.stmt(st)

    def stmt(self, st):
        if isinstance(st, ast.Assign):
            v = self.ev(st.value)
            for t in st.targets:
                self.assign(t, v, st)
        elif isinstance(st, ast.AnnAssign) and st.value is not None:
            self.assign(st.target, self.ev(st.value), st)
        elif isinstance(st, ast.AugAssign):
            self.ev(st.value)
            t = st.target
            if isinstance(t, ast.Name):
                v = self.env.get(t.id, EMPTY)
                self.mutate(v.objs, st, "in-place operator")
                # two LOCAL names bound to ONE object (a = b = expr ; a = b): the in-place operator changes what BOTH denote
                for nm in sorted(self.same.get(t.id, ())):
                    if nm == t.id or nm == self.sn:
                        continue
                    later = any(isinstance(n, ast.Name) and n.id == nm and isinstance(n.ctx, ast.Load) and getattr(n, "lineno", 0) > st.lineno for n in ast.walk(self.f.node))
                    if later:
                        self.shared_inplace.append((st.lineno, t.id, nm, unparse(st)[:50]))
            elif isinstance(t, ast.Attribute) and isinstance(t.value, ast.Name) and t.value.id == self.sn:
                if self.f.name != "__init__":
                    self.mutate({"S:" + t.attr}, st, "in-place operator", kind="rebind")   # counters: self.n += 1
            else:
                load = ast.copy_location(type(t)(**{k: v for k, v in ast.iter_fields(t)}), t)
                load.ctx = ast.Load()
                v = self.ev(load)
                self.mutate(v.objs, st, "in-place operator")
        elif isinstance(st, ast.Expr):
            self.ev(st.value)
        elif isinstance(st, ast.Return):
            if st.value is not None:
                self.ret = self.ret.union(self.ev(st.value))
        elif isinstance(st, ast.For):
            self.bind_iter(st.target, st.iter)
            self.block(st.body)
            self.block(st.body)
            self.block(st.orelse)
        elif isinstance(st, ast.While):
            self.ev(st.test)
            self.block(st.body)
            self.block(st.body)
            self.block(st.orelse)
        elif isinstance(st, ast.If):
            self.ev(st.test)
            saved = dict(self.env)
            self.block(st.body)
            e1 = self.env
            self.env = dict(saved)
            self.block(st.orelse)
            e2 = self.env
            merged = {}
            for k in set(e1) | set(e2):
                merged[k] = e1.get(k, EMPTY).union(e2.get(k, EMPTY))
            self.env = merged
        elif isinstance(st, ast.With):
            self.block(st.body)
        elif isinstance(st, ast.Try):
            self.block(st.body)
            for h in st.handlers:
                self.block(h.body)
            self.block(st.orelse)
            self.block(st.finalbody)
        elif isinstance(st, (ast.FunctionDef, ast.ClassDef, ast.Pass, ast.Raise, ast.Import, ast.ImportFrom, ast.Global, ast.Nonlocal, ast.Assert, ast.Delete, ast.Break, ast.Continue)):
            return


_BUILTINS = {"len", "range", "print", "abs", "min", "max", "sum", "float", "int", "str", "isinstance", "hasattr", "getattr", "any", "all", "round",
             "sorted", "dict", "set", "type", "repr", "format", "NameError", "ValueError", "NotImplementedError", "TypeError", "super", "open", "id", "callable"}


def _np_root(fn):
    r = fn
    while isinstance(r, ast.Attribute):
        r = r.value
    return isinstance(r, ast.Name) and r.id in ("np", "numpy", "math", "plt", "os", "sys", "time")
