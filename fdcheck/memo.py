"""MEMO — persistent-state (memoisation) analysis.

A value stored in a location that outlives the call -- an attribute of `self`, an attribute
of an object received as parameter, a class-level container shared by all instances -- and
used by a later call *instead of being recomputed* preserves behaviour only if the condition
under which it is re-used determines every input it was computed from.  The analysis finds
the memo stores of a set of classes from the shape of the code:

  instance level : `self.X = E` inside a region guarded by a presence test of X
                   (`hasattr(self,'X')`, `self.X is None`, `not self.X`, a size test of X),
                   either `if <test>: ... store ...` or `if <test>: return` followed by stores;
  foreign        : `p.a.X = E` for a parameter p, when the class presence-tests that attribute
                   (`getattr(p.a,'X',None)`, `hasattr(p.a,'X')`);
  class level    : any mutation, from a method, of a mutable container created in a class body
                   (`self.X[k] = E`, `.setdefault(k, E)`, `.update(E)`, `.append(E)`, `Cls.X...`).

For each store it computes the input paths E depends on (parameters and their attribute /
constant-subscript paths such as `mesh.xf`, `data[0].size`; attributes of self that are written
outside constructors; for class-level and foreign stores every attribute of self, since the
location is shared between objects) by closing over the local definitions of the method, and
the paths *covered* by the re-use condition: a path compared (==, !=, is, is not) with an
expression of the stored location in the guard, or a component of the dictionary key.  A key
component that combines several inputs arithmetically covers them only if no collision is
found; a collision (two different small integer inputs with the same key) is exhibited in the
report.  An uncovered input is a finding: some call history re-uses a value computed from
other inputs.  Coverage is deliberately generous (a size test covers the size), so that a
complete cache is never reported."""
import ast
import itertools

from .project import unparse

PRESENCE_FUNCS = ("hasattr", "getattr")
CONTAINER_MUTATORS = ("setdefault", "update", "append", "extend", "insert", "add")
NEUTRAL_NAMES = {"np", "numpy", "math", "range", "len", "min", "max", "abs", "sum", "float", "int", "list", "tuple", "dict", "zip",
                 "enumerate", "print", "True", "False", "None", "sorted", "any", "all", "isinstance", "str", "slice", "set", "type"}

# locations owned by other rules (one named symbol each, with the reason)
EXEMPT = {
    ("integration.implicitmodel.calc_jacobian", "jacobian"): "Jacobian cache: re-use is restricted to linear operators, decided by JAC-GUARD (C06)",
    ("integration.implicitmodel.calc_jacobian", "jacobian_use"): "Jacobian cache flag (JAC-GUARD, C06)",
    ("integration.implicitmodel.calc_jacobian", "neq"): "Jacobian cache sibling (JAC-GUARD, C06)",
    ("integration.implicitmodel.calc_jacobian", "dim"): "Jacobian cache sibling (JAC-GUARD, C06)",
    ("integration.gear.step", "_lastresidual"): "multistep history, not a cache: decided by EFF-HIDDEN-STATE (C08, known finding)",
}


class Finding:
    def __init__(self, func, line, attr, level, message):
        self.func, self.line, self.attr, self.level, self.message = func, line, attr, level, message

    @property
    def key(self):
        return "memo-%s" % self.attr


def _chain(node):
    """canonical text of an attribute / constant-subscript chain, or None"""
    if isinstance(node, ast.Name):
        return node.id
    if isinstance(node, ast.Attribute):
        b = _chain(node.value)
        return None if b is None else "%s.%s" % (b, node.attr)
    if isinstance(node, ast.Subscript) and isinstance(node.slice, ast.Constant):
        b = _chain(node.value)
        return None if b is None else "%s[%r]" % (b, node.slice.value)
    return None


def _root(node):
    while isinstance(node, (ast.Attribute, ast.Subscript)):
        node = node.value
    if isinstance(node, ast.Call):
        return _root(node.func)
    return node


class MethodCtx:
    """local definitions of one method"""

    def __init__(self, proj, func, mutable_attrs):
        self.p = proj
        self.f = func
        self.sn = func.params[0] if func.has_self else None
        self.params = set(func.params[1:] if self.sn else func.params)
        a = func.node.args
        for x in a.kwonlyargs:
            self.params.add(x.arg)
        if a.vararg:
            self.params.add(a.vararg.arg)
        if a.kwarg:
            self.params.add(a.kwarg.arg)
        self.mutable_attrs = mutable_attrs
        self.defs = {}          # local name -> [value exprs]   (incl. element stores, loop iterables)
        self.selfdefs = {}      # attr -> [value exprs] assigned in this method (for constructors)
        for n in ast.walk(func.node):
            if isinstance(n, (ast.Assign, ast.AnnAssign, ast.AugAssign)):
                val = n.value
                if val is None:
                    continue
                ts = n.targets if isinstance(n, ast.Assign) else [n.target]
                for t in ts:
                    self._bind(t, val)
            elif isinstance(n, ast.For):
                self._bind(n.target, n.iter)
            elif isinstance(n, ast.comprehension):
                self._bind(n.target, n.iter)
            elif isinstance(n, ast.withitem) and n.optional_vars is not None:
                self._bind(n.optional_vars, n.context_expr)

    def _bind(self, t, val):
        if isinstance(t, (ast.Tuple, ast.List)):
            for e in t.elts:
                self._bind(e, val)
            return
        if isinstance(t, ast.Starred):
            return self._bind(t.value, val)
        r = _root(t)
        if isinstance(t, ast.Name):
            self.defs.setdefault(t.id, []).append(val)
        elif isinstance(r, ast.Name) and r.id == self.sn and isinstance(t, ast.Attribute) and isinstance(t.value, ast.Name):
            self.selfdefs.setdefault(t.attr, []).append(val)
        elif isinstance(r, ast.Name) and r.id not in self.params and r.id != self.sn:
            # element / attribute store into a local object: the local now depends on value and index
            self.defs.setdefault(r.id, []).append(val)
            if isinstance(t, ast.Subscript):
                self.defs[r.id].append(t.slice)

    # ------------------------------------------------------------------ expansion
    def expand1(self, node, depth=0):
        """substitute single-definition locals (and, in constructors, attributes of self assigned
        once earlier in the same method) to obtain comparable text; returns an ast node"""
        if depth > 6:
            return node
        if isinstance(node, ast.Name) and node.id in self.defs and len(self.defs[node.id]) == 1 and node.id not in self.params:
            return self.expand1(self.defs[node.id][0], depth + 1)
        if isinstance(node, ast.Attribute) and isinstance(node.value, ast.Name) and node.value.id == self.sn and self.f.name == "__init__":
            d = self.selfdefs.get(node.attr)
            if d and len(d) == 1:
                return self.expand1(d[0], depth + 1)
        if isinstance(node, (ast.BinOp, ast.UnaryOp, ast.Tuple, ast.Attribute, ast.Subscript, ast.Compare, ast.BoolOp, ast.Call)):
            new = type(node)(**{k: v for k, v in ast.iter_fields(node)})
            for k, v in ast.iter_fields(node):
                if isinstance(v, ast.expr):
                    setattr(new, k, self.expand1(v, depth))
                elif isinstance(v, list):
                    setattr(new, k, [self.expand1(x, depth) if isinstance(x, ast.expr) else x for x in v])
            return ast.copy_location(new, node)
        return node

    def deps(self, node, shared, seen=None):
        """input paths `node` depends on.  shared=True: the location is shared between objects,
        so every attribute of self counts as an input"""
        seen = set() if seen is None else seen
        out = set()
        if node is None:
            return out
        c = _chain(node)
        if c is not None:
            r = _root(node)
            if r.id == self.sn:
                parts = c.split(".", 2)
                if len(parts) == 1:
                    return out
                attr = parts[1].split("[")[0]
                if self.f.cls is not None and self.p.resolve(self.f.cls, attr) is not None:
                    return out        # bound method
                if self.f.name == "__init__" and attr in self.selfdefs:
                    for d in self.selfdefs[attr]:
                        if id(d) not in seen:
                            seen.add(id(d))
                            out |= self.deps(d, shared, seen)
                    return out
                if shared or attr in self.mutable_attrs:
                    out.add(c if shared else "%s.%s" % (self.sn, attr))
                return out
            if r.id in self.params:
                out.add(c)
                return out
            if r.id in self.defs:
                for d in self.defs[r.id]:
                    if id(d) not in seen:
                        seen.add(id(d))
                        sub = self.deps(d, shared, seen)
                        # a path below a local that is itself a single input path extends that path
                        suffix = c[len(r.id):]
                        if suffix and len(self.defs[r.id]) == 1 and len(sub) == 1 and _chain(self.expand1(ast.Name(r.id, ast.Load()))) is not None:
                            sub = {next(iter(sub)) + suffix}
                        out |= sub
                return out
            return out          # module, builtin or global name
        if isinstance(node, ast.Subscript):
            return self.deps(node.value, shared, seen) | self.deps(node.slice, shared, seen)
        if isinstance(node, ast.Attribute):
            return self.deps(node.value, shared, seen)
        if isinstance(node, ast.Call):
            if isinstance(node.func, ast.Attribute):
                out |= self.deps(node.func.value, shared, seen)
            elif not isinstance(node.func, ast.Name):
                out |= self.deps(node.func, shared, seen)
            for a in node.args:
                out |= self.deps(a, shared, seen)
            for k in node.keywords:
                out |= self.deps(k.value, shared, seen)
            return out
        if isinstance(node, ast.Lambda):
            return out
        for ch in ast.iter_child_nodes(node):
            if isinstance(ch, (ast.expr, ast.comprehension, ast.keyword)):
                out |= self.deps(ch, shared, seen)
        return out


def _covers(covered, path):
    for q in covered:
        if path == q or path.startswith(q + ".") or path.startswith(q + "["):
            return True
        # a tested aspect of an input (its size, shape, length) covers nothing else of it
    return False


def _mentions(node, sn, attr):
    """does the expression read location <root>.attr (directly, or through hasattr/getattr)?"""
    for n in ast.walk(node):
        if isinstance(n, ast.Attribute) and n.attr == attr:
            return True
        if isinstance(n, ast.Call) and isinstance(n.func, ast.Name) and n.func.id in PRESENCE_FUNCS and len(n.args) >= 2:
            if isinstance(n.args[1], ast.Constant) and n.args[1].value == attr:
                return True
    return False


def _presence_tested(test, attr):
    """the test asks whether location .attr holds a value (not a comparison of its value with an input)"""
    for n in ast.walk(test):
        if isinstance(n, ast.Call) and isinstance(n.func, ast.Name) and n.func.id in PRESENCE_FUNCS and len(n.args) >= 2:
            if isinstance(n.args[1], ast.Constant) and n.args[1].value == attr:
                return True
        if isinstance(n, ast.Compare) and len(n.ops) == 1 and isinstance(n.ops[0], (ast.Is, ast.IsNot, ast.Eq, ast.NotEq)):
            l, r = n.left, n.comparators[0]
            for a, b in ((l, r), (r, l)):
                if isinstance(b, ast.Constant) and b.value is None and isinstance(a, ast.Attribute) and a.attr == attr:
                    return True
        if isinstance(n, ast.UnaryOp) and isinstance(n.op, ast.Not) and isinstance(n.operand, ast.Attribute) and n.operand.attr == attr:
            return True
    return False


def _guard_cover(ctx, tests, attrs):
    """paths compared with an expression of one of the stored locations in the guard tests"""
    cov = set()
    for t in tests:
        for n in ast.walk(t):
            if isinstance(n, ast.Compare) and len(n.ops) == 1 and isinstance(n.ops[0], (ast.Eq, ast.NotEq, ast.Is, ast.IsNot)):
                l, r = n.left, n.comparators[0]
                for a, b in ((l, r), (r, l)):
                    if any(_mentions(a, ctx.sn, x) for x in attrs) and not (isinstance(b, ast.Constant)):
                        be = ctx.expand1(b)
                        for sub in ast.walk(be):
                            c = _chain(sub)
                            if c is not None and isinstance(_root(sub), ast.Name) and _root(sub).id in ctx.params:
                                cov.add(c)
    # keep maximal chains only (a chain walk also yields its prefixes: `data`, `data[0]`, `data[0].size`)
    return {c for c in cov if not any(o != c and (o.startswith(c + ".") or o.startswith(c + "[")) for o in cov)}


def _eval_int(node, env):
    if isinstance(node, ast.Constant) and isinstance(node.value, (int, float)) and not isinstance(node.value, bool):
        return node.value
    c = _chain(node)
    if c is not None and c in env:
        return env[c]
    if isinstance(node, ast.BinOp):
        a, b = _eval_int(node.left, env), _eval_int(node.right, env)
        if a is None or b is None:
            return None
        try:
            if isinstance(node.op, ast.Add):
                return a + b
            if isinstance(node.op, ast.Sub):
                return a - b
            if isinstance(node.op, ast.Mult):
                return a * b
            if isinstance(node.op, ast.FloorDiv):
                return a // b
            if isinstance(node.op, ast.Div):
                return a / b
            if isinstance(node.op, ast.Pow):
                return a ** b
            if isinstance(node.op, ast.Mod):
                return a % b
        except (ZeroDivisionError, OverflowError):
            return None
    if isinstance(node, ast.UnaryOp) and isinstance(node.op, ast.USub):
        a = _eval_int(node.operand, env)
        return None if a is None else -a
    return None


def _key_cover(ctx, key, shared):
    """-> (covered paths, collision text or None)"""
    ke = ctx.expand1(key)
    comps = ke.elts if isinstance(ke, ast.Tuple) else [ke]
    cov = set()
    collision = None
    for comp in comps:
        c = _chain(comp)
        atoms = sorted(ctx.deps(comp, shared))
        if c is not None or len(atoms) <= 1:
            cov |= set(atoms)
            continue
        # arithmetic over several inputs: search a collision on small positive integers
        paths = []
        for sub in ast.walk(comp):
            cc = _chain(sub)
            if cc is not None and cc in atoms and cc not in paths:
                paths.append(cc)
        found = None
        if set(paths) == set(atoms) and len(paths) <= 4:
            seen = {}
            for vals in itertools.product(range(1, 7), repeat=len(paths)):
                v = _eval_int(comp, dict(zip(paths, vals)))
                if v is None:
                    seen = None
                    break
                if v in seen and seen[v] != vals:
                    found = (seen[v], vals, v)
                    break
                seen.setdefault(v, vals)
        if found:
            collision = "key component `%s` takes the value %s for (%s) = %s and for %s" % (unparse(comp), found[2], ", ".join(paths), found[0], found[1])
        else:
            cov |= set(atoms)      # not shown to collide: generous
    return cov, collision


def mutable_attr_names(proj):
    """attribute names stored (obj.X = / op=) anywhere outside a constructor"""
    out = set()
    for f in proj.all_functions():
        if f.name == "__init__":
            continue
        for n in ast.walk(f.node):
            ts = []
            if isinstance(n, ast.Assign):
                ts = n.targets
            elif isinstance(n, (ast.AugAssign, ast.AnnAssign)):
                ts = [n.target]
            for t in ts:
                for e in (t.elts if isinstance(t, (ast.Tuple, ast.List)) else [t]):
                    if isinstance(e, ast.Attribute):
                        out.add(e.attr)
                    # an ELEMENT store / in-place update through an attribute (f.data[i] += ..., fld.data[q][c] = ...):
                    # the object the attribute holds changes although the attribute is never rebound
                    b = e
                    while isinstance(b, ast.Subscript):
                        b = b.value
                    if b is not e and isinstance(b, ast.Attribute):
                        out.add(b.attr)
    return out


def class_level_containers(proj, ci):
    """name -> defining class, for mutable containers created in a class body along the MRO
    (registries filled by decorators at class-creation time are included: they must not be
    mutated from methods either, except through their own merge() in constructors)"""
    out = {}
    for c in reversed(proj.mro(ci)):
        for name, expr in c.attrs.items():
            if isinstance(expr, (ast.Dict, ast.List, ast.Set, ast.DictComp, ast.ListComp, ast.SetComp)) or (isinstance(expr, ast.Call) and isinstance(expr.func, ast.Name) and expr.func.id in ("dict", "list", "set", "defaultdict", "OrderedDict")):
                out[name] = c
    return out


def analyse(proj, classes):
    """-> (findings, stats) for the given ClassInfo list"""
    mut = mutable_attr_names(proj)
    findings = []
    stats = {"classes": 0, "methods": 0, "memo_stores": 0, "covered": [], "exempt": []}
    for ci in classes:
        stats["classes"] += 1
        containers = class_level_containers(proj, ci)
        # attributes presence-tested anywhere in the class family (for foreign stores)
        tested_foreign = set()
        for f in ci.methods.values():
            for n in ast.walk(f.node):
                if isinstance(n, ast.Call) and isinstance(n.func, ast.Name) and n.func.id in PRESENCE_FUNCS and len(n.args) >= 2 and isinstance(n.args[1], ast.Constant):
                    r = _root(n.args[0])
                    if isinstance(r, ast.Name) and f.params and r.id != f.params[0]:
                        tested_foreign.add(n.args[1].value)
        # descriptors: `X = D(...)` in the class body, D defining __set__.  ONE descriptor object serves every instance of the
        # class and its subclasses; a __set__ that keeps the value on ITSELF (self.value = value) instead of on the instance it
        # is given (obj.__dict__ / setattr(obj, ...)) makes X state of the class: each object reads what was assigned last to any.
        for name, expr in ci.attrs.items():
            if not (isinstance(expr, ast.Call) and isinstance(expr.func, (ast.Name, ast.Attribute))):
                continue
            dcl = proj.resolve_class_expr(expr.func, ci.module)
            if dcl is None or "__set__" not in dcl.methods:
                continue
            ds = dcl.methods["__set__"]
            if len(ds.params) < 3:
                continue
            stats["memo_stores"] += 1
            dsn, dval = ds.params[0], ds.params[2]
            kept = [(t, s) for t, v, s in _stores_in(ds.node.body) if isinstance(t, ast.Attribute) and isinstance(t.value, ast.Name) and t.value.id == dsn and dval in _names_in(v)]
            host = ci.methods.get("__init__") or next(iter(ci.methods.values()), None)
            if kept and host is not None:
                t, s = kept[0]
                findings.append(Finding(host, getattr(expr, "lineno", host.node.lineno), name, "class-level attribute",
                                        "`%s` is a descriptor (%s) whose __set__ keeps the assigned value on the descriptor itself (`%s`, %s:%d): one descriptor object serves the whole class, so every instance -- of this class and of its subclasses -- reads the value assigned LAST to any of them (two models with different parameters alive at once share one)"
                                        % (name, dcl.qualname, unparse(s)[:50], ds.module.relpath, s.lineno)))
            else:
                stats["covered"].append("%s.%s (descriptor storing on the instance)" % (ci.qualname, name))
        for f in ci.methods.values():
            stats["methods"] += 1
            ctx = MethodCtx(proj, f, mut)
            _method(proj, ci, f, ctx, containers, tested_foreign, findings, stats)
    return findings, stats


def _stores_in(stmts):
    """(target, value, stmt) of every assignment in the statement list (recursively)"""
    for st in stmts:
        for n in ast.walk(st):
            if isinstance(n, ast.Assign):
                for t in n.targets:
                    for e in (t.elts if isinstance(t, (ast.Tuple, ast.List)) else [t]):
                        yield e, n.value, n
            elif isinstance(n, ast.AugAssign):
                yield n.target, n.value, n
            elif isinstance(n, ast.AnnAssign) and n.value is not None:
                yield n.target, n.value, n


def _method(proj, ci, f, ctx, containers, tested_foreign, findings, stats):
    sn = ctx.sn
    body = f.node.body

    def report(line, attr, level, uncovered, how, extra=""):
        if (f.qualname, attr) in EXEMPT and level != "class-level container":      # (the exemption names a per-object location)
            stats["exempt"].append("%s.%s: %s" % (f.qualname, attr, EXEMPT[(f.qualname, attr)]))
            return
        findings.append(Finding(f, line, attr, level,
                                "%s `%s` %s is computed from %s, which the re-use condition does not determine%s: a later call with other inputs gets the stale value"
                                % (level, attr, how, ", ".join("`%s`" % u for u in sorted(uncovered)), extra)))

    # ---------------- decorator caches: functools.lru_cache / cache on a method keys the result by the object's IDENTITY and
    # the arguments; cached_property keeps the first value for the object's life.  Whatever else the body reads -- an attribute
    # of self that methods assign after construction -- is an input the key does not determine.
    deco = []
    for d in f.node.decorator_list:
        e = d.func if isinstance(d, ast.Call) else d
        nm = e.id if isinstance(e, ast.Name) else (e.attr if isinstance(e, ast.Attribute) else "?")
        if nm in ("lru_cache", "cache", "cached_property", "memoize", "memoized", "cached"):
            deco.append(nm)
    if deco and sn is not None:
        stats["memo_stores"] += 1
        d = set()
        for n in ast.walk(f.node):
            if isinstance(n, ast.Return) and n.value is not None:
                d |= ctx.deps(n.value, False)
        unc = {p for p in d if p.startswith(sn + ".")}
        if unc:
            findings.append(Finding(f, f.node.lineno, f.name, "decorator cache",
                                    "the result of `%s` is memoised by @%s (key: the object's identity%s) but is computed from %s, which methods assign after construction: from the second call with the same arguments the value of an EARLIER state of the object is returned"
                                    % (f.name, deco[0], " and the arguments" if deco[0] != "cached_property" else "", ", ".join("`%s`" % u for u in sorted(unc)))))
        else:
            stats["covered"].append("%s (@%s)" % (f.qualname, deco[0]))

    # ---------------- instance level: guarded regions
    regions = []      # (tests, statements in the guarded region)
    after_of = {}     # id(first statement of an `if` region) -> the statements that follow the `if` in its block
    def scan(stmts, top):
        for i, st in enumerate(stmts):
            if isinstance(st, ast.If):
                test = ctx.expand1(st.test)       # a local bound once to getattr(self, 'X', None) / self.X stands for it
                attrs = {a for a in _self_attrs_in(test, sn)}
                pres = {a for a in attrs if _presence_tested(test, a)}
                if not pres and top and attrs and _returns(st.body) and not st.orelse:
                    regions.append(([test], stmts[i + 1:], attrs, ("flag-only", st)))        # candidate validity flag (decided below)
                if pres:
                    if _returns(st.body) and not st.orelse:
                        regions.append(([test], stmts[i + 1:], pres, st if top else None))
                    else:
                        regions.append(([test], st.body + st.orelse, pres, None))
                        after_of[id(st.body[0])] = stmts[i + 1:]
                scan(st.body, False)
                scan(st.orelse, False)
            elif isinstance(st, (ast.For, ast.While)):
                scan(st.body, False)
            elif isinstance(st, ast.With):
                scan(st.body, False)
            elif isinstance(st, ast.Try):
                scan(st.body, False)
    if sn is not None and f.name != "__init__":
        scan(body, True)
    done = set()
    done_flag = set()
    for tests, stmts, pres, early in regions:
        stores = [(t, v, s) for t, v, s in _stores_in(stmts)
                  if isinstance(t, ast.Attribute) and isinstance(t.value, ast.Name) and t.value.id == sn]
        stored_attrs = {t.attr for t, _, _ in stores}
        flag_only = isinstance(early, tuple)
        if flag_only:
            early = early[1]
        if flag_only or not (stored_attrs & pres):
            # the presence-tested location is not (re)filled here: not a cache of this region -- unless it is a VALIDITY FLAG:
            # `if self.flag: return` at the top of a method whose remaining statements store attributes computed from the
            # method's PARAMETERS.  The flag (state assigned by methods, no parameter in the test) says "the stored value is
            # current" without saying for which argument: a later call with another argument keeps the old value.
            if early is not None and len(pres) == 1 and not (_names_in(tests[0]) & ctx.params) and set(_self_attrs_in(tests[0], sn)) == pres \
                    and next(iter(pres)) in ctx.mutable_attrs and not any(isinstance(n, ast.Raise) for n in ast.walk(early)):
                flag = next(iter(pres))
                # a FLAG: every assignment of it, anywhere in the class family, is a constant (True / False / 0 / 1 / None)
                isflag = True
                for c_ in proj.all_classes():
                    if not (any(b is c_ for b in proj.mro(ci)) or any(b is ci for b in proj.mro(c_))):
                        continue
                    for n_ in ast.walk(c_.node):
                        if isinstance(n_, ast.Assign) and any(isinstance(t_, ast.Attribute) and t_.attr == flag for t_ in n_.targets) and not isinstance(n_.value, ast.Constant):
                            isflag = False
                        if isinstance(n_, ast.AugAssign) and isinstance(n_.target, ast.Attribute) and n_.target.attr == flag:
                            isflag = False
                if not isflag:
                    continue
                kept = {t.attr for t, _, _ in _stores_in(early.body) if isinstance(t, ast.Attribute) and isinstance(t.value, ast.Name) and t.value.id == sn}
                for t, v, s in stores:
                    if t.attr in kept or (id(s), t.attr) in done_flag:
                        continue
                    dall = ctx.deps(v, False)
                    d = {p_ for p_ in dall if p_.split(".")[0].split("[")[0] in ctx.params}
                    if d and not isinstance(s, ast.AugAssign) and "%s.%s" % (sn, t.attr) not in dall:       # (an accumulator is not a cache)
                        done_flag.add((id(s), t.attr))
                        stats["memo_stores"] += 1
                        findings.append(Finding(f, s.lineno, t.attr, "cached attribute",
                                                "`self.%s` is left as it is when the flag `self.%s` is set (`%s`, line %d), but it is computed from the argument %s: the flag records THAT a value was stored, not for which argument -- a later call with another argument (another field, the same integrator object in a later run) silently keeps the value of the earlier one"
                                                % (t.attr, flag, unparse(tests[0])[:60], early.lineno, ", ".join("`%s`" % x for x in sorted(d)))))
            continue
        cov = _guard_cover(ctx, tests, stored_attrs | pres)
        # what the region stores through a method of its own object: `self.m(args)` where m assigns self.Y -- the value of Y is
        # computed from the arguments of the call
        for st_ in stmts:
            for n_ in ast.walk(st_):
                if isinstance(n_, ast.Call) and isinstance(n_.func, ast.Attribute) and isinstance(n_.func.value, ast.Name) and n_.func.value.id == sn and f.cls is not None:
                    m_ = proj.resolve(f.cls, n_.func.attr)
                    if m_ is None or not m_.has_self or (id(n_), "call") in done:
                        continue
                    ys = sorted({t_.attr for t_, _, _ in _stores_in(m_.node.body) if isinstance(t_, ast.Attribute) and isinstance(t_.value, ast.Name) and t_.value.id == m_.params[0]})
                    # ... and that the statements AFTER the guarded region use (directly, or in a method they call): otherwise the
                    # attribute is scratch of the region, not a value kept for the path that skips it
                    after = after_of.get(id(stmts[0]), []) if stmts else []
                    used = set()
                    for a_ in after:
                        for k_ in ast.walk(a_):
                            if isinstance(k_, ast.Attribute) and isinstance(k_.value, ast.Name) and k_.value.id == sn and isinstance(k_.ctx, ast.Load):
                                used.add(k_.attr)
                                g_ = proj.resolve(f.cls, k_.attr)
                                if g_ is not None and g_.has_self:
                                    used |= {x_.attr for x_ in ast.walk(g_.node) if isinstance(x_, ast.Attribute) and isinstance(x_.value, ast.Name) and x_.value.id == g_.params[0] and isinstance(x_.ctx, ast.Load)}
                    ys = [y_ for y_ in ys if y_ in used]
                    if not ys:
                        continue
                    done.add((id(n_), "call"))
                    stats["memo_stores"] += 1
                    d = set()
                    for a_ in list(n_.args) + [k_.value for k_ in n_.keywords]:
                        d |= ctx.deps(a_, False)
                    unc = {p_ for p_ in d if not _covers(cov, p_)}
                    if unc:
                        report(n_.lineno, ys[0], "cached attribute", unc, "(set by `%s` under the presence test `%s`)" % (unparse(n_)[:40], unparse(tests[0])[:80]))
                    else:
                        stats["covered"].append("%s.%s" % (f.qualname, ys[0]))
        for t, v, s in stores:
            if (id(s), t.attr) in done:
                continue
            done.add((id(s), t.attr))
            stats["memo_stores"] += 1
            d = ctx.deps(v, False)
            unc = {p for p in d if not _covers(cov, p)}
            if unc:
                report(s.lineno, t.attr, "cached attribute", unc, "(stored under the presence test `%s`)" % unparse(tests[0])[:80])
            else:
                stats["covered"].append("%s.%s" % (f.qualname, t.attr))

    # ---------------- class level containers reached through a loop variable:
    #   for h in self.A, self.B: h.clear() / h.append(v)
    for n in ast.walk(f.node):
        if isinstance(n, ast.For) and isinstance(n.target, ast.Name) and isinstance(n.iter, (ast.Tuple, ast.List)):
            names = [_class_container(e, sn, ci, containers, proj) for e in n.iter.elts]
            names = [x for x in names if x]
            if not names:
                continue
            for m in ast.walk(n):
                if isinstance(m, ast.Call) and isinstance(m.func, ast.Attribute) and isinstance(m.func.value, ast.Name) and m.func.value.id == n.target.id \
                        and m.func.attr in CONTAINER_MUTATORS + ("clear", "pop", "remove", "sort", "reverse"):
                    stats["memo_stores"] += 1
                    findings.append(Finding(f, m.lineno, names[0], "class-level container",
                                            "class-level containers %s (shared by all instances) are changed in place through the loop variable `%s` (`%s`): every object of the class sees, and clears, the same history" % (", ".join("`%s`" % x for x in names), n.target.id, unparse(m)[:40])))
    # ---------------- class level and foreign
    for n in ast.walk(f.node):
        # keyed / unkeyed mutation through a method call
        if isinstance(n, ast.Call) and isinstance(n.func, ast.Attribute) and n.func.attr in CONTAINER_MUTATORS:
            tgt = n.func.value
            name = _class_container(tgt, sn, ci, containers, proj)
            if name is None:
                continue
            stats["memo_stores"] += 1
            if n.func.attr == "setdefault" and len(n.args) == 2:
                cov, coll = _key_cover(ctx, n.args[0], True)
                d = ctx.deps(n.args[1], True)
            else:
                cov, coll = set(), None
                d = set()
                for a in list(n.args) + [k.value for k in n.keywords]:
                    d |= ctx.deps(a, True)
            unc = {p for p in d if not _covers(cov, p)}
            if unc:
                report(n.lineno, name, "class-level container", unc, "(shared by all instances, filled by `%s`)" % unparse(n)[:60], ("; " + coll) if coll else "")
            else:
                stats["covered"].append("%s.%s" % (f.qualname, name))
    # instance-level dictionaries used as caches: `self.X[k] = E` in a method that also looks k up
    # (`k in self.X`, `self.X.get(k)`): the key must determine what E was computed from
    looked_up = set()
    if sn is not None and f.name != "__init__":
        # a membership test whose only consequence is an exception (a registry refusing duplicates / unknown names) is
        # not a re-use of a stored value
        guard_only = set()
        for n in ast.walk(f.node):
            if isinstance(n, ast.If) and not n.orelse and len(n.body) == 1 and isinstance(n.body[0], ast.Raise):
                for c in ast.walk(n.test):
                    guard_only.add(id(c))
        for n in ast.walk(f.node):
            if id(n) in guard_only:
                continue
            if isinstance(n, ast.Compare) and len(n.ops) == 1 and isinstance(n.ops[0], (ast.In, ast.NotIn)):
                c = n.comparators[0]
                if isinstance(c, ast.Attribute) and isinstance(c.value, ast.Name) and c.value.id == sn:
                    looked_up.add(c.attr)
            if isinstance(n, ast.Call) and isinstance(n.func, ast.Attribute) and n.func.attr in ("get", "setdefault"):
                c = n.func.value
                if isinstance(c, ast.Attribute) and isinstance(c.value, ast.Name) and c.value.id == sn:
                    looked_up.add(c.attr)
        for t, v, s in _stores_in(body):
            if isinstance(t, ast.Subscript) and isinstance(t.value, ast.Attribute) and isinstance(t.value.value, ast.Name) and t.value.value.id == sn \
                    and t.value.attr in looked_up and _class_container(t.value, sn, ci, containers, proj) is None:
                name = t.value.attr
                stats["memo_stores"] += 1
                cov, coll = _key_cover(ctx, t.slice, False)
                d = {p for p in ctx.deps(v, False) if not (p + ".").startswith("%s.%s." % (sn, name))}
                unc = {p for p in d if not _covers(cov, p)}
                if unc:
                    report(s.lineno, name, "cache dictionary", unc, "(looked up and filled with key `%s`)" % unparse(t.slice)[:60], ("; " + coll) if coll else "")
                else:
                    stats["covered"].append("%s.%s" % (f.qualname, name))
    for t, v, s in _stores_in(body):
        # class-level keyed store  X[k] = E   /  foreign attribute store  p.a.X = E
        if isinstance(t, ast.Subscript):
            name = _class_container(t.value, sn, ci, containers, proj)
            if name is not None:
                stats["memo_stores"] += 1
                cov, coll = _key_cover(ctx, t.slice, True)
                d = {p for p in ctx.deps(v, True) if not (p + ".").startswith("%s.%s." % (sn, name))}
                unc = {p for p in d if not _covers(cov, p)}
                if unc:
                    report(s.lineno, name, "class-level container", unc, "(shared by all instances, key `%s`)" % unparse(t.slice)[:60], ("; " + coll) if coll else "")
                else:
                    stats["covered"].append("%s.%s" % (f.qualname, name))
        elif isinstance(t, ast.Attribute):
            r = _root(t)
            if isinstance(r, ast.Name) and r.id in ctx.params and t.attr in tested_foreign:
                stats["memo_stores"] += 1
                d = ctx.deps(v, True)
                tests = [x.test for x in ast.walk(f.node) if isinstance(x, (ast.If, ast.IfExp, ast.While))]
                cov = set()
                unc = {p for p in d if not _covers(cov, p) and not p.startswith(_chain(t.value) or "\0")}
                if unc:
                    report(s.lineno, t.attr, "attribute cached on a parameter's object", unc, "(`%s`, presence-tested with getattr/hasattr)" % unparse(t)[:60])
                else:
                    stats["covered"].append("%s.%s" % (f.qualname, t.attr))
            elif (isinstance(t.value, ast.Name) and _is_class_ref(t.value, sn, ci, proj, allow_self=False)) or _is_dyn_class(t.value, sn):
                # Cls.X = E / type(self).X = E / self.__class__.X = E from a method: state shared by EVERY instance of the class
                stats["memo_stores"] += 1
                d = ctx.deps(v, True) | {p_ for p_ in _names_in(v) if p_ in ctx.params}
                if d:
                    findings.append(Finding(f, s.lineno, t.attr, "class-level attribute",
                                            "`%s` (line %d) stores a value computed from %s on the CLASS: every instance, existing or future, sees the value of the last object that executed this line (two models with different parameters alive at once share one)" % (unparse(s)[:60], s.lineno, ", ".join("`%s`" % x for x in sorted(d)))))


def _returns(stmts):
    return bool(stmts) and isinstance(stmts[-1], ast.Return)


def _self_attrs_in(node, sn):
    for n in ast.walk(node):
        if isinstance(n, ast.Attribute) and isinstance(n.value, ast.Name) and n.value.id == sn:
            yield n.attr
        if isinstance(n, ast.Call) and isinstance(n.func, ast.Name) and n.func.id in PRESENCE_FUNCS and len(n.args) >= 2:
            if isinstance(n.args[0], ast.Name) and n.args[0].id == sn and isinstance(n.args[1], ast.Constant):
                yield n.args[1].value


def _names_in(node):
    return {n.id for n in ast.walk(node) if isinstance(n, ast.Name)}


def _is_dyn_class(node, sn):
    """type(self) / self.__class__"""
    if isinstance(node, ast.Call) and isinstance(node.func, ast.Name) and node.func.id == "type" and len(node.args) == 1 and isinstance(node.args[0], ast.Name) and node.args[0].id == sn:
        return True
    return isinstance(node, ast.Attribute) and node.attr == "__class__" and isinstance(node.value, ast.Name) and node.value.id == sn


def _is_class_ref(node, sn, ci, proj, allow_self=True):
    if isinstance(node, ast.Name):
        if allow_self and node.id == sn:
            return True
        return any(c.name == node.id for c in proj.mro(ci))
    if isinstance(node, ast.Call) and isinstance(node.func, ast.Name) and node.func.id == "type":
        return True
    if isinstance(node, ast.Attribute) and node.attr == "__class__":
        return True
    return False


def _class_container(node, sn, ci, containers, proj):
    """node denotes a class-level container of ci (reached as self.X, Cls.X, type(self).X) and the
    instance does not shadow it in a constructor -> its name"""
    if isinstance(node, ast.Attribute) and node.attr in containers and _is_class_ref(node.value, sn, ci, proj):
        if isinstance(node.value, ast.Name) and node.value.id == sn:
            # self.X: shadowed if the constructor chain (methods it calls included) assigns self.X
            from .effects import init_attrs
            if node.attr in init_attrs(proj, ci):
                return None
        return node.attr
    return None
