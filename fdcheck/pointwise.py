"""KERNEL-POINTWISE — kernels that the properties describe as point-wise (limiters "elementwise
on arrays", per-cell time step "independent of the other cells", output variables "one value
per cell") must not couple array entries: no reduction (`np.max/min/sum/mean/all/any/...`,
`.max()`...) and no neighbour access (`np.roll/gradient/diff/cumsum/sort/...`) may be applied to
a value that depends on the kernel's arguments.  Dependence is computed by closing over the
local definitions of the function (memo.MethodCtx); calls to methods of the same object are
followed.  Reductions over the *component* axis of 2D vector data (`axis=0` in the `...2d`
classes and the `_data` helpers) are not over cells and are accepted.  `np.all` / `np.any` are not in the list: they usually guard a fast path and are
given a semantics by the engines that can (limiter regions, C12); elsewhere they are an
unsupported construct (exit 2), never an alarm."""
import ast

from .memo import MethodCtx
from .project import unparse

REDUCERS = {"max", "min", "amax", "amin", "nanmax", "nanmin", "sum", "nansum", "mean", "average", "median", "prod",
            "std", "var", "ptp", "argmax", "argmin", "cumsum", "cumprod", "sort", "argsort", "roll", "gradient", "diff", "ediff1d",
            "convolve", "correlate", "flip", "fliplr", "flipud", "dot", "vdot", "inner", "norm", "trapz", "unique", "count_nonzero",
            "percentile", "quantile", "interp", "searchsorted", "histogram", "bincount", "allclose", "array_equal", "isin"}
BUILTIN_REDUCERS = {"max", "min", "sum", "sorted"}


def _np_name(func):
    """np.f / numpy.f / np.linalg.f -> f"""
    if isinstance(func, ast.Attribute):
        r = func.value
        while isinstance(r, ast.Attribute):
            r = r.value
        if isinstance(r, ast.Name) and r.id in ("np", "numpy"):
            return func.attr
    return None


def scan(proj, f, seen=None, depth=0, data_params=None):
    """-> [(qualname, lineno, text, reason)]"""
    seen = set() if seen is None else seen
    if f.qualname in seen or depth > 3:
        return []
    seen.add(f.qualname)
    ctx = MethodCtx(proj, f, set())
    params = set(ctx.params) if data_params is None else set(data_params)
    vec_class = f.cls is not None and any(c.name.endswith("2d") for c in proj.mro(f.cls)) or f.module.short == "_data"
    out = []

    def dep(node):
        return any(p.split(".")[0].split("[")[0] in params for p in ctx.deps(node, False))
    # branches on the number of entries: `x.shape[0] != 2`, `x.size == 1`, `len(x) > 3` with x an
    # argument-dependent array -- the value computed for a cell depends on how many cells there are
    def extent(node):
        if isinstance(node, ast.Subscript) and isinstance(node.value, ast.Attribute) and node.value.attr == "shape" and dep(node.value.value):
            return "shape"
        if isinstance(node, ast.Attribute) and node.attr == "size" and dep(node.value):
            return "size"
        if isinstance(node, ast.Call) and isinstance(node.func, ast.Name) and node.func.id == "len" and len(node.args) == 1 and dep(node.args[0]):
            return "len"
        return None

    def only_diagnostic(stmts):
        return all(isinstance(st, (ast.Raise, ast.Pass, ast.Assert)) or (isinstance(st, ast.Expr) and isinstance(st.value, ast.Call) and isinstance(st.value.func, ast.Name) and st.value.func.id == "print") for st in stmts)
    for n in ast.walk(f.node):
        tests = []
        if isinstance(n, ast.If) and not (only_diagnostic(n.body) and not n.orelse):
            tests.append(n.test)
        elif isinstance(n, ast.IfExp):
            tests.append(n.test)
        for t in tests:
            for c in ast.walk(t):
                if isinstance(c, ast.Compare) and len(c.ops) == 1:
                    l, r = c.left, c.comparators[0]
                    for a, b in ((l, r), (r, l)):
                        if extent(a) and isinstance(b, ast.Constant) and isinstance(b.value, int):
                            out.append((f.qualname, c.lineno, unparse(c)[:70], "the branch taken depends on the number of entries of an argument (a 1D array of exactly %s cells takes the other path)" % b.value))
    for n in ast.walk(f.node):
        if not isinstance(n, ast.Call):
            continue
        name = _np_name(n.func)
        args = list(n.args) + [k.value for k in n.keywords if k.arg not in ("axis", "keepdims", "out", "dtype")]
        axis0 = any(k.arg == "axis" and isinstance(k.value, ast.Constant) and k.value.value == 0 for k in n.keywords)
        if name in REDUCERS:
            if vec_class and axis0:
                continue
            if any(dep(a) for a in args):
                out.append((f.qualname, n.lineno, unparse(n)[:70], "np.%s couples the entries of an argument-dependent array" % name))
        elif isinstance(n.func, ast.Attribute) and n.func.attr in REDUCERS and not isinstance(_root_name(n.func.value), type(None)) and name is None:
            # method form  x.max(), x.sum(), x.all()
            if _root_name(n.func.value) in ("np", "numpy", "math"):
                continue
            if vec_class and axis0:
                continue
            if dep(n.func.value):
                out.append((f.qualname, n.lineno, unparse(n)[:70], ".%s() couples the entries of an argument-dependent array" % n.func.attr))
        elif isinstance(n.func, ast.Name) and n.func.id in BUILTIN_REDUCERS and len(n.args) == 1 and not isinstance(n.args[0], (ast.List, ast.Tuple)):
            if dep(n.args[0]):
                out.append((f.qualname, n.lineno, unparse(n)[:70], "builtin %s() over an argument-dependent array" % n.func.id))
        # follow calls on the same object
        if isinstance(n.func, ast.Attribute) and isinstance(n.func.value, ast.Name) and ctx.sn is not None and n.func.value.id == ctx.sn and f.cls is not None:
            m = proj.resolve(f.cls, n.func.attr)
            if m is not None and any(dep(a) for a in n.args):
                out += scan(proj, m, seen, depth + 1)
    return out


def _root_name(node):
    while isinstance(node, (ast.Attribute, ast.Subscript, ast.Call)):
        node = node.func if isinstance(node, ast.Call) else node.value
    return node.id if isinstance(node, ast.Name) else None


LIKE_FUNCS = {"zeros_like", "empty_like", "ones_like", "full_like"}
FLOAT_FUNCS = {"sqrt", "exp", "log", "sin", "cos", "power", "true_divide", "divide", "mean", "average", "float64", "float"}


def dtype_follow(proj, f):
    """buffers whose dtype follows an argument (`np.zeros_like(arg)`, `arg.copy()`) and that
    receive, by element / slice assignment, a value that is floating point whatever the
    argument's dtype (true division, float literal, sqrt...): for integer-typed input the store
    truncates silently.  -> [(lineno, buffer text, store text)]"""
    ctx = MethodCtx(proj, f, set())
    params = set(ctx.params)
    selfnames = {ctx.sn} if ctx.sn else set()

    def dep(node):
        return any(p.split(".")[0].split("[")[0] in params for p in ctx.deps(node, False))

    def is_like(node):
        if isinstance(node, ast.Call):
            if _np_name(node.func) in LIKE_FUNCS and node.args and dep(node.args[0]) and not any(k.arg == "dtype" for k in node.keywords):
                return True
            # np.zeros(n, dtype=arg.dtype) / np.empty(shape, dtype=arg[i].dtype): the dtype is taken from an argument
            for k in node.keywords:
                if k.arg == "dtype" and isinstance(k.value, ast.Attribute) and k.value.attr == "dtype" and dep(k.value.value):
                    return True
            if isinstance(node.func, ast.Attribute) and node.func.attr == "copy" and not node.args and dep(node.func.value):
                return True
        if isinstance(node, (ast.List, ast.ListComp)):
            elts = node.elts if isinstance(node, ast.List) else [node.elt]
            return any(is_like(e) for e in elts)
        return False

    def floatish(node):
        for n in ast.walk(node):
            if isinstance(n, ast.BinOp) and isinstance(n.op, ast.Div):
                return True
            if isinstance(n, ast.Attribute) and isinstance(n.value, ast.Name) and n.value.id in selfnames:
                return True           # a coefficient kept on the object (kappa, a weight): a float in general
            if isinstance(n, ast.Constant) and isinstance(n.value, float):
                return True
            if isinstance(n, ast.Call) and (_np_name(n.func) in FLOAT_FUNCS or (isinstance(n.func, ast.Attribute) and _root_name(n.func) == "math")):
                return True
        return False
    follow = {}
    for n in ast.walk(f.node):
        if isinstance(n, ast.Assign) and is_like(n.value):
            for t in n.targets:
                if isinstance(t, ast.Name):
                    follow[t.id] = unparse(n.value)[:50]
        if isinstance(n, ast.Call) and isinstance(n.func, ast.Attribute) and n.func.attr == "append" and n.args and is_like(n.args[0]):
            r = _root_name(n.func.value)
            if r:
                follow[r] = unparse(n.args[0])[:50]
    out = []
    for n in ast.walk(f.node):
        if isinstance(n, ast.Assign):
            for t in n.targets:
                if isinstance(t, ast.Subscript):
                    r = _root_name(t)
                    if r in follow and floatish(n.value):
                        out.append((n.lineno, follow[r], unparse(n)[:70]))
    return out
