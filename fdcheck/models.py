"""Per-model analysis contexts: which class, which symbolic attributes, admissibility
assumptions (rho, p, h, g > 0, gamma > 1), the roles of primitive / conservative
components, and the physical-flux specification table used as oracle by GVN-CONSIST."""
from fractions import Fraction

from .algebra import Algebra, RF
from .interp import Interp, GvnDomain, SelfObj, OpaqueFn, Vec, ParamDict
from .project import AnalysisError

# model key -> description
MODELS = {
    "convection": dict(cls="convection.model", dim=1, neq=1, prim=["q"], pos=[False],
                       parity=["even"], consts={"convcoef": dict(positive=False)}),
    "burgers": dict(cls="burgers.model", dim=1, neq=1, prim=["u"], pos=[False],
                    parity=["odd"], consts={}),
    "shallowwater": dict(cls="shallowwater.shallowwater1d", dim=1, neq=2, prim=["h", "u"],
                         pos=[True, False], parity=["even", "odd"], consts={"g": dict(positive=True)}),
    "euler1d": dict(cls="euler.euler1d", dim=1, neq=3, prim=["rho", "u", "p"],
                    pos=[True, False, True], parity=["even", "odd", "even"],
                    consts={"gamma": dict(gt=1)}),
    "nozzle": dict(cls="euler.nozzle", dim=1, neq=3, prim=["rho", "u", "p"],
                   pos=[True, False, True], parity=["even", "odd", "even"],
                   consts={"gamma": dict(gt=1)}),
    "euler2d": dict(cls="euler.euler2d", dim=2, neq=3, prim=["rho", "V", "p"],
                    pos=[True, False, True], parity=["even", "odd", "even"],
                    consts={"gamma": dict(gt=1)}),
}


class Ctx:
    """analysis context of one model: fresh algebra + interpreter + abstract self"""

    def __init__(self, proj, key, fold=True, term_budget=20000, time_budget=20.0):
        if key not in MODELS:
            raise AnalysisError("unknown model key %s" % key)
        self.proj = proj
        self.key = key
        self.spec = MODELS[key]
        self.cls = proj.cls(self.spec["cls"])
        self.alg = Algebra(term_budget=term_budget, time_budget=time_budget)
        self.alg.fold_enabled = fold
        self.dom = GvnDomain(self.alg)
        self.interp = Interp(proj, self.dom)
        self.dim = self.spec["dim"]
        attrs = {}
        deferred = []
        summ = proj.ctor_summary(self.cls)
        for name, (kind, val) in summ.items():
            if kind == "const":
                if isinstance(val, Fraction):
                    attrs[name] = int(val) if val.denominator == 1 else val
                elif isinstance(val, tuple):
                    attrs[name] = [int(v) if isinstance(v, Fraction) and v.denominator == 1 else v for v in val]
                else:
                    attrs[name] = val
            elif kind == "param":
                if val in self.spec["consts"]:
                    attrs[name] = self.alg.sym(val, **self.spec["consts"][val])
                elif val == "sectionlaw":
                    attrs[name] = OpaqueFn("A", positive=True)
                elif val == "source":
                    attrs[name] = None
            elif kind == "expr" and hasattr(val, "env"):
                deferred.append((name, val))
        for cname in self.spec["consts"]:
            if cname not in attrs:
                raise AnalysisError("model %s: constructor no longer stores parameter %s" % (key, cname))
        if "gamma" in self.spec["consts"]:
            self.alg.gamma = self.alg.by_name["gamma"]
            self.alg.ranges["gamma"] = (1.05, 2.0)     # statement: gamma in (1, 2]
        if key == "nozzle":
            attrs["geomterm"] = self.alg.sym("G")
            attrs["_xc"] = self.alg.sym("xc")
        from .interp import ObjStub
        for reg in ("_bcdict", "_vardict", "_numfluxdict"):
            attrs[reg] = ObjStub(reg, {"merge": (lambda other: None)})
        self.selfobj = SelfObj(self.cls, attrs)
        self.neq = self.spec["neq"]
        # attributes computed in a constructor from its parameters (self._c = gamma/(gamma-1)): evaluated
        # with the bindings of THAT constructor frame -- the class's own parameter where it was forwarded,
        # the default where it was not
        init = proj.resolve(self.cls, "__init__")
        for name, val in deferred:
            env = {}
            ok = True
            for nm, (k2, v2) in ((n_, b_) for n_, b_ in val.env.items() if isinstance(b_, tuple) and len(b_) == 2):
                if k2 == "param" and v2 in self.spec["consts"]:
                    env[nm] = self.alg.sym(v2, **self.spec["consts"][v2])
                elif k2 == "const" and isinstance(v2, (int, float, Fraction)) and not isinstance(v2, bool):
                    env[nm] = Fraction(repr(v2)) if isinstance(v2, float) else v2
            if name in attrs:
                continue
            try:
                v = self.interp.eval(val.expr, env, init, 0)
            except AnalysisError:
                continue        # not a numeric expression of the parameters: left unknown (an error if read)
            if self.dom.is_value(v) or isinstance(v, (int, Fraction)):
                attrs[name] = v

    # ---- symbolic states
    def prim(self, tag):
        """primitive state with atoms rho<tag>, u<tag>, p<tag> (2D: ux, uy)"""
        out = []
        for name, pos in zip(self.spec["prim"], self.spec["pos"]):
            if name == "V":
                out.append(Vec(self.alg.sym("ux" + tag), self.alg.sym("uy" + tag)))
            else:
                out.append(self.alg.sym(name + tag, positive=pos))
        return out

    def const(self, name):
        return self.alg.sym(name)

    def dir2d(self):
        """unit normal (nx, ny) with nx^2+ny^2 = 1 : parametrised on the Cartesian grid by
        the two families (1,0) and (0,1); a general symbolic unit vector is modelled with
        atoms and the relation is applied by the caller."""
        # proofs hold for every vector (nx, ny); witness points of refutations use the unit normals
        # of a Cartesian grid, which is what the statements quantify over
        self.alg.point_hooks["nx"] = lambda k: float((1, 0, -1, 0)[k % 4])
        self.alg.point_hooks["ny"] = lambda k: float((0, 1, 0, -1)[k % 4])
        return Vec(self.alg.sym("nx"), self.alg.sym("ny"))

    def method(self, name):
        f = self.proj.resolve(self.cls, name)
        if f is None:
            raise AnalysisError("%s has no method %s (anchor vanished?)" % (self.cls.qualname, name))
        return f

    def call(self, func, *args, **kwargs):
        return self.interp.call_function(func, [self.selfobj] + list(args), kwargs)

    def prim2cons(self, W):
        return self.call(self.method("prim2cons"), W)

    def cons2prim(self, Q):
        return self.call(self.method("cons2prim"), Q)

    # ---- physical flux specification (oracle of GVN-CONSIST)
    def physical_flux(self, W, dirv=None):
        A = self.alg
        k = self.key
        if k == "convection":
            return [self.selfobj.attrs["convcoef"] * W[0]]
        if k == "burgers":
            return [W[0] * W[0] / 2]
        if k == "shallowwater":
            h, u = W
            g = self.selfobj.attrs["g"]
            return [h * u, h * u * u + g * h * h / 2]
        if k in ("euler1d", "nozzle"):
            rho, u, p = W
            gam = self.selfobj.attrs["gamma"]
            H = gam * p / (rho * (gam - 1)) + u * u / 2
            return [rho * u, rho * u * u + p, rho * u * H]
        if k == "euler2d":
            rho, V, p = W
            gam = self.selfobj.attrs["gamma"]
            un = V.x * dirv.x + V.y * dirv.y
            H = gam * p / (rho * (gam - 1)) + (V.x * V.x + V.y * V.y) / 2
            return [rho * un, Vec(rho * un * V.x + p * dirv.x, rho * un * V.y + p * dirv.y), rho * un * H]
        raise AnalysisError("no physical flux for %s" % k)

    def spectral_radius(self, W):
        A = self.alg
        k = self.key
        if k == "convection":
            return A.abs(self.selfobj.attrs["convcoef"])
        if k == "burgers":
            return A.abs(W[0])
        if k == "shallowwater":
            h, u = W
            return A.abs(u) + A.sqrt(self.selfobj.attrs["g"] * h)
        rho, u, p = W
        gam = self.selfobj.attrs["gamma"]
        if k == "euler2d":
            return A.sqrt(u.x * u.x + u.y * u.y) + A.sqrt(gam * p / rho)
        return A.abs(u) + A.sqrt(gam * p / rho)


def flat(v):
    """flatten a kernel result (list of RF / Vec) into a list of (label, RF)"""
    out = []
    for i, x in enumerate(v):
        if isinstance(x, Vec):
            out.append(("%d.x" % i, x.x))
            out.append(("%d.y" % i, x.y))
        else:
            out.append(("%d" % i, x))
    return out
