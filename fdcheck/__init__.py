"""fdcheck: repository-specific static analysis of flowdyn (see /verif/DESIGN.md)."""
