"""ORD -- a small evaluator of control code over the ORDERING abstraction.

Some library functions touch numeric quantities only through comparisons (the stop test of the
time loop: `self._time >= tottime`, `self._nit >= maxit`).  Their result is then a function of the
finite set of orderings of those quantities, and the function is decided for ALL values by
evaluating its syntax tree once per ordering.  Quantities are opaque tokens `Ord(family, rank)`:
they support comparison with a token of the same family and nothing else -- any arithmetic on
them, or a comparison across families, leaves the abstraction and the evaluator refuses
(AnalysisError: the rule is then undecided, never silently passed).

Everything else the function does (dictionary dispatch, loops over the criteria, tables held in
class attributes, helper methods) is evaluated concretely on ordinary Python containers by this
evaluator -- the library is not imported and none of its code is executed."""
import ast

from .project import AnalysisError


class Ord:
    """rank = (w, r): r is the position among the representatives (below / at / above the limit); w counts
    GENERIC OFFSETS -- quantities of the same family with an arbitrary large positive value (the iteration
    offset of a restarted run).  Sums and differences add ranks componentwise and the order is
    lexicographic, i.e. the order of  w*OMEGA + r  for OMEGA larger than every r.  A comparison whose two
    sides differ in w depends on the offset: it is recorded in `omega_dependent`."""
    __slots__ = ("family", "rank")
    omega_dependent = []

    def __init__(self, family, rank):
        self.family, self.rank = family, rank if isinstance(rank, tuple) else (0, rank)

    def _chk(self, o):
        if not isinstance(o, Ord) or o.family != self.family:
            raise AnalysisError("ordering abstraction: %r compared with %r" % (self, o))
        if o.rank[0] != self.rank[0]:
            Ord.omega_dependent.append((self, o))
        return o.rank

    def __lt__(self, o): return self.rank < self._chk(o)
    def __le__(self, o): return self.rank <= self._chk(o)
    def __gt__(self, o): return self.rank > self._chk(o)
    def __ge__(self, o): return self.rank >= self._chk(o)
    def __eq__(self, o): return isinstance(o, Ord) and o.family == self.family and o.rank == self.rank
    def __ne__(self, o): return not self.__eq__(o)
    def __hash__(self): return hash((self.family, self.rank))
    def __bool__(self): raise AnalysisError("ordering abstraction: truth value of %r" % self)
    def __repr__(self): return "<%s#%d,%d>" % ((self.family,) + self.rank)

    def combine(self, o, sign):
        if not isinstance(o, Ord) or o.family != self.family:
            raise AnalysisError("ordering abstraction: arithmetic on %r and %r" % (self, o))
        return Ord(self.family, (self.rank[0] + sign * o.rank[0], self.rank[1] + sign * o.rank[1]))


class SelfRef:
    def __init__(self, cls, attrs):
        self.cls, self.attrs = cls, attrs


class Stub:
    """object with exactly the listed attributes (anything else: AttributeError, i.e. the default of a
    three-argument getattr / False for hasattr)"""
    def __init__(self, name, attrs):
        self.name, self.attrs = name, attrs

    def __repr__(self):
        return "<%s>" % self.name


class _Ret(Exception):
    def __init__(self, v):
        self.v = v


class _Brk(Exception):
    pass


class _Cnt(Exception):
    pass


_BUILTINS = {"any": any, "all": all, "dict": dict, "list": list, "tuple": tuple, "set": set, "len": len, "bool": bool,
             "sorted": sorted, "zip": zip, "enumerate": enumerate, "range": range, "isinstance": None, "str": str,
             "True": True, "False": False, "None": None, "reversed": reversed, "sum": None,
             "MappingProxyType": (lambda d: d), "frozenset": frozenset}      # (a read-only view answers the same lookups)
_METHODS = {dict: {"items", "keys", "values", "get", "copy", "setdefault", "update"},
            list: {"append", "extend", "copy", "index", "count"},
            tuple: {"index", "count"}, set: {"add", "copy", "union"}, str: {"lower", "upper", "startswith", "endswith", "format"}}
_CMP = {ast.Lt: lambda a, b: a < b, ast.LtE: lambda a, b: a <= b, ast.Gt: lambda a, b: a > b, ast.GtE: lambda a, b: a >= b,
        ast.Eq: lambda a, b: a == b, ast.NotEq: lambda a, b: a != b, ast.In: lambda a, b: a in b, ast.NotIn: lambda a, b: a not in b,
        ast.Is: lambda a, b: a is b, ast.IsNot: lambda a, b: a is not b}


class MiniEval:
    def __init__(self, proj, max_steps=20000):
        self.p = proj
        self.steps = 0
        self.max_steps = max_steps
        self.mutated_args = []      # (function, line, text): in-place changes of a caller-supplied container
        self.on_stmt = None         # hook(stmt, func): may raise to stop the evaluation at a statement

    # ------------------------------------------------------------------ calls
    def call(self, f, args, kwargs=None, depth=0):
        if depth > 6:
            raise AnalysisError("ordering abstraction: call depth exceeded at %s" % f.qualname)
        if f.opaque_decorators:
            raise AnalysisError("%s is decorated with @%s: not modelled" % (f.qualname, ", @".join(f.opaque_decorators)))
        kwargs = dict(kwargs or {})
        params = f.params
        if len(args) > len(params):
            raise AnalysisError("too many arguments for %s" % f.qualname)
        env = dict(zip(params, args))
        dfl = f.defaults()
        for n in params[len(args):]:
            if n in kwargs:
                env[n] = kwargs.pop(n)
            elif n in dfl:
                env[n] = self.ev(dfl[n], {}, f, depth)
            else:
                raise AnalysisError("missing argument %s for %s" % (n, f.qualname))
        if kwargs:
            raise AnalysisError("unexpected keyword for %s" % f.qualname)
        try:
            self.block(f.node.body, env, f, depth)
        except _Ret as r:
            return r.v
        return None

    # ------------------------------------------------------------------ statements
    def block(self, stmts, env, f, depth):
        for st in stmts:
            self.steps += 1
            if self.steps > self.max_steps:
                raise AnalysisError("ordering abstraction: step budget exceeded in %s" % f.qualname)
            if self.on_stmt is not None:
                self.on_stmt(st, f)
            self.stmt(st, env, f, depth)

    def stmt(self, st, env, f, depth):
        if isinstance(st, ast.Expr):
            if not isinstance(st.value, ast.Constant):
                self.ev(st.value, env, f, depth)
        elif isinstance(st, ast.Assign):
            v = self.ev(st.value, env, f, depth)
            for t in st.targets:
                self.assign(t, v, env, f, depth)
        elif isinstance(st, ast.AugAssign):
            cur = self.ev(ast.fix_missing_locations(ast.copy_location(_load(st.target), st)), env, f, depth)
            v = self.ev(st.value, env, f, depth)
            if isinstance(st.op, ast.BitOr):
                r = cur | v
            elif isinstance(st.op, ast.BitAnd):
                r = cur & v
            elif isinstance(st.op, ast.Add) and not isinstance(cur, Ord) and not isinstance(v, Ord):
                r = cur + v
            else:
                raise AnalysisError("%s:%d unsupported augmented assignment" % (f.qualname, st.lineno))
            self.assign(st.target, r, env, f, depth)
        elif isinstance(st, ast.If):
            self.block(st.body if self.truth(self.ev(st.test, env, f, depth), st, f) else st.orelse, env, f, depth)
        elif isinstance(st, ast.For):
            broke = False
            for x in self.iterate(self.ev(st.iter, env, f, depth), st, f):
                self.assign(st.target, x, env, f, depth)
                try:
                    self.block(st.body, env, f, depth)
                except _Brk:
                    broke = True
                    break
                except _Cnt:
                    continue
            if not broke:
                self.block(st.orelse, env, f, depth)
        elif isinstance(st, ast.Return):
            raise _Ret(self.ev(st.value, env, f, depth) if st.value is not None else None)
        elif isinstance(st, ast.Pass):
            pass
        elif isinstance(st, ast.Break):
            raise _Brk()
        elif isinstance(st, ast.Continue):
            raise _Cnt()
        elif isinstance(st, ast.Raise):
            raise AnalysisError("%s:%d raises on this path" % (f.qualname, st.lineno))
        else:
            raise AnalysisError("%s:%d unsupported statement %s" % (f.qualname, st.lineno, type(st).__name__))

    def assign(self, t, v, env, f, depth):
        if isinstance(t, ast.Name):
            env[t.id] = v
        elif isinstance(t, (ast.Tuple, ast.List)):
            vs = list(self.iterate(v, t, f))
            if len(vs) != len(t.elts):
                raise AnalysisError("%s:%d unpacking mismatch" % (f.qualname, t.lineno))
            for tt, vv in zip(t.elts, vs):
                self.assign(tt, vv, env, f, depth)
        elif isinstance(t, ast.Subscript):
            o = self.ev(t.value, env, f, depth)
            k = self.ev(t.slice, env, f, depth)
            if not isinstance(o, (dict, list)):
                raise AnalysisError("%s:%d item assignment on %s" % (f.qualname, t.lineno, type(o).__name__))
            if getattr(o, "_caller_owned", False):
                self.mutated_args.append((f.qualname, t.lineno, ast.unparse(t)))
            o[k] = v
        elif isinstance(t, ast.Attribute):
            o = self.ev(t.value, env, f, depth)
            if isinstance(o, SelfRef):
                o.attrs[t.attr] = v
            else:
                raise AnalysisError("%s:%d attribute assignment" % (f.qualname, t.lineno))
        else:
            raise AnalysisError("%s:%d unsupported assignment target" % (f.qualname, t.lineno))

    def iterate(self, v, node, f):
        if isinstance(v, (list, tuple, dict, set, range, zip, enumerate)) or hasattr(v, "__next__") or type(v).__name__ in ("dict_items", "dict_keys", "dict_values", "reversed", "list_reverseiterator"):
            return v
        raise AnalysisError("%s:%d iteration over %s" % (f.qualname, getattr(node, "lineno", 0), type(v).__name__))

    def truth(self, v, node, f):
        if isinstance(v, Ord):
            raise AnalysisError("%s:%d truth value of a quantity" % (f.qualname, getattr(node, "lineno", 0)))
        return bool(v)

    # ------------------------------------------------------------------ expressions
    def ev(self, n, env, f, depth):
        m = getattr(self, "e_" + type(n).__name__, None)
        if m is None:
            raise AnalysisError("%s:%d unsupported expression %s" % (f.qualname, getattr(n, "lineno", 0), type(n).__name__))
        return m(n, env, f, depth)

    def e_Constant(self, n, env, f, depth):
        return n.value

    def e_Name(self, n, env, f, depth):
        if n.id in env:
            return env[n.id]
        if n.id in _BUILTINS:
            return ("builtin", n.id)
        if n.id in ("getattr", "hasattr"):
            return ("builtin", n.id)
        raise AnalysisError("%s:%d unknown name %s" % (f.qualname, n.lineno, n.id))

    def getattr(self, o, a, f, n):
        if o is None:
            raise AnalysisError("%s:%d None has no attribute %s" % (f.qualname, getattr(n, "lineno", 0), a))
        if isinstance(o, SelfRef):
            if a in o.attrs:
                return o.attrs[a]
            c, expr = self.p.class_attr(o.cls, a)
            if expr is not None:
                return self.ev(expr, {}, f, 0)
            # name-mangled private class attributes
            for ci in self.p.mro(o.cls):
                pre = "_" + ci.name.lstrip("_")
                if a.startswith(pre + "__"):
                    c, expr = self.p.class_attr(o.cls, a[len(pre):])
                    if expr is not None:
                        return self.ev(expr, {}, f, 0)
            g = self.p.resolve(o.cls, a)
            if g is not None:
                if g.is_property:
                    return self.call(g, [o], {}, 1)
                return ("static", g) if g.is_static else ("bound", o, g)
            raise AnalysisError("%s:%d self.%s unknown to the ordering abstraction" % (f.qualname, getattr(n, "lineno", 0), a))
        if isinstance(o, Stub):
            if a in o.attrs:
                return o.attrs[a]
            raise AnalysisError("%s:%d %r has no attribute %s" % (f.qualname, getattr(n, "lineno", 0), o, a))
        for t, names in _METHODS.items():
            if isinstance(o, t) and a in names:
                return ("pymethod", o, a)
        raise AnalysisError("%s:%d attribute .%s of %s" % (f.qualname, getattr(n, "lineno", 0), a, type(o).__name__))

    def e_Attribute(self, n, env, f, depth):
        return self.getattr(self.ev(n.value, env, f, depth), n.attr, f, n)

    def e_Call(self, n, env, f, depth):
        fn = self.ev(n.func, env, f, depth)
        args = []
        for a in n.args:
            if isinstance(a, ast.Starred):
                args.extend(self.iterate(self.ev(a.value, env, f, depth), n, f))
            else:
                args.append(self.ev(a, env, f, depth))
        kwargs = {k.arg: self.ev(k.value, env, f, depth) for k in n.keywords if k.arg}
        if isinstance(fn, tuple) and fn[0] == "bound":
            return self.call(fn[2], [fn[1]] + args, kwargs, depth + 1)
        if isinstance(fn, tuple) and fn[0] == "static":
            return self.call(fn[1], args, kwargs, depth + 1)
        if isinstance(fn, tuple) and fn[0] == "pymethod":
            _, o, name = fn
            if name in ("setdefault", "update", "append", "extend", "add") and getattr(o, "_caller_owned", False):
                self.mutated_args.append((f.qualname, n.lineno, ast.unparse(n)))
            r = getattr(o, name)(*args, **kwargs)
            return list(r) if name in ("items", "keys", "values") else r
        if isinstance(fn, tuple) and fn[0] == "builtin":
            name = fn[1]
            if name == "getattr":
                if len(args) == 3:
                    try:
                        return self.getattr(args[0], args[1], f, n)
                    except AnalysisError:
                        if isinstance(args[0], (SelfRef, Stub)) or args[0] is None:
                            return args[2]
                        raise
                return self.getattr(args[0], args[1], f, n)
            if name == "hasattr":
                try:
                    self.getattr(args[0], args[1], f, n)
                    return True
                except AnalysisError:
                    return False
            if name in ("any", "all") and len(args) == 1:
                vals = [self.truth(x, n, f) for x in self.iterate(args[0], n, f)]
                return any(vals) if name == "any" else all(vals)
            if name == "bool":
                return self.truth(args[0], n, f) if args else False
            if name == "isinstance" or _BUILTINS.get(name) is None:
                raise AnalysisError("%s:%d unsupported builtin %s" % (f.qualname, n.lineno, name))
            if name in ("sorted",) and any(isinstance(x, Ord) for x in args[0]):
                raise AnalysisError("%s:%d sorting quantities" % (f.qualname, n.lineno))
            r = _BUILTINS[name](*args, **kwargs)
            return list(r) if name in ("zip", "enumerate", "reversed") else r
        if isinstance(fn, tuple) and fn[0] == "lambda":
            _, lam, lenv = fn
            e2 = dict(lenv)
            for a, v in zip(lam.args.args, args):
                e2[a.arg] = v
            return self.ev(lam.body, e2, f, depth)
        raise AnalysisError("%s:%d call of %s" % (f.qualname, n.lineno, ast.unparse(n.func)))

    def e_Lambda(self, n, env, f, depth):
        return ("lambda", n, dict(env))

    def e_Compare(self, n, env, f, depth):
        l = self.ev(n.left, env, f, depth)
        for op, c in zip(n.ops, n.comparators):
            r = self.ev(c, env, f, depth)
            fn = _CMP.get(type(op))
            if fn is None:
                raise AnalysisError("%s:%d unsupported comparison" % (f.qualname, n.lineno))
            if isinstance(l, Ord) != isinstance(r, Ord) and isinstance(op, (ast.Lt, ast.LtE, ast.Gt, ast.GtE)):
                raise AnalysisError("%s:%d a quantity is compared with %r: outside the ordering abstraction" % (f.qualname, n.lineno, r if isinstance(l, Ord) else l))
            try:
                ok = fn(l, r)
            except TypeError:
                raise AnalysisError("%s:%d comparison of %s and %s" % (f.qualname, n.lineno, type(l).__name__, type(r).__name__))
            if not ok:
                return False
            l = r
        return True

    def e_BoolOp(self, n, env, f, depth):
        is_and = isinstance(n.op, ast.And)
        v = None
        for x in n.values:
            v = self.ev(x, env, f, depth)
            t = self.truth(v, n, f)
            if is_and and not t:
                return v
            if not is_and and t:
                return v
        return v

    def e_UnaryOp(self, n, env, f, depth):
        v = self.ev(n.operand, env, f, depth)
        if isinstance(n.op, ast.Not):
            return not self.truth(v, n, f)
        raise AnalysisError("%s:%d unsupported unary operator" % (f.qualname, n.lineno))

    def e_BinOp(self, n, env, f, depth):
        a, b = self.ev(n.left, env, f, depth), self.ev(n.right, env, f, depth)
        if isinstance(a, Ord) and isinstance(b, Ord) and isinstance(n.op, (ast.Add, ast.Sub)):
            return a.combine(b, 1 if isinstance(n.op, ast.Add) else -1)
        if isinstance(a, Ord) or isinstance(b, Ord):
            raise AnalysisError("%s:%d arithmetic on a quantity: outside the ordering abstraction" % (f.qualname, n.lineno))
        if isinstance(n.op, ast.BitOr):
            return a | b
        if isinstance(n.op, ast.BitAnd):
            return a & b
        if isinstance(n.op, ast.Add) and isinstance(a, (str, list, tuple)) and type(a) is type(b):
            return a + b
        raise AnalysisError("%s:%d unsupported operator" % (f.qualname, n.lineno))

    def e_IfExp(self, n, env, f, depth):
        return self.ev(n.body if self.truth(self.ev(n.test, env, f, depth), n, f) else n.orelse, env, f, depth)

    def e_Subscript(self, n, env, f, depth):
        o = self.ev(n.value, env, f, depth)
        k = self.ev(n.slice, env, f, depth)
        try:
            return o[k]
        except (KeyError, IndexError, TypeError):
            raise AnalysisError("%s:%d subscript %s fails" % (f.qualname, n.lineno, ast.unparse(n)))

    def e_Slice(self, n, env, f, depth):
        g = lambda x: self.ev(x, env, f, depth) if x is not None else None
        return slice(g(n.lower), g(n.upper), g(n.step))

    def e_List(self, n, env, f, depth):
        return [self.ev(e, env, f, depth) for e in n.elts]

    def e_Tuple(self, n, env, f, depth):
        return tuple(self.ev(e, env, f, depth) for e in n.elts)

    def e_Set(self, n, env, f, depth):
        return {self.ev(e, env, f, depth) for e in n.elts}

    def e_Dict(self, n, env, f, depth):
        return {self.ev(k, env, f, depth): self.ev(v, env, f, depth) for k, v in zip(n.keys, n.values)}

    def _comp(self, n, env, f, depth, emit):
        def rec(i, e):
            if i == len(n.generators):
                emit(e)
                return
            g = n.generators[i]
            for x in self.iterate(self.ev(g.iter, e, f, depth), n, f):
                e2 = dict(e)
                self.assign(g.target, x, e2, f, depth)
                if all(self.truth(self.ev(c, e2, f, depth), n, f) for c in g.ifs):
                    rec(i + 1, e2)
        rec(0, dict(env))

    def e_ListComp(self, n, env, f, depth):
        out = []
        self._comp(n, env, f, depth, lambda e: out.append(self.ev(n.elt, e, f, depth)))
        return out

    e_GeneratorExp = e_ListComp       # evaluated eagerly: the functions analysed here have no side effects in the elements

    def e_SetComp(self, n, env, f, depth):
        return set(self.e_ListComp(n, env, f, depth))

    def e_DictComp(self, n, env, f, depth):
        out = {}

        def emit(e):
            out[self.ev(n.key, e, f, depth)] = self.ev(n.value, e, f, depth)
        self._comp(n, env, f, depth, emit)
        return out

    def e_JoinedStr(self, n, env, f, depth):
        return "<fstring>"


def _load(t):
    t2 = ast.parse(ast.unparse(t), mode="eval").body
    return t2
