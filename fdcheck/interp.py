"""Abstract interpreter of flowdyn's numeric kernels over the Python AST.

One syntax-directed evaluator, parameterised by a *domain* (algebraic value numbers,
units of measure, reflection parity ...).  Arrays are abstracted point-wise: an array
value is the value of its generic element.  Control flow on configuration predicates
(`x.ndim == 1`, `'angle' in param`, `name is None`) is resolved concretely; control flow
on data is if-converted (`where`).  Calls to methods of `self` and to module helpers are
inlined through the resolved project model.  Any construct outside the supported subset
raises AnalysisError (exit 2), never a verdict.
"""
import ast
from fractions import Fraction

from .project import AnalysisError, frac_of_constant, unparse
from .stencil import NLin, SArr


class Vec:
    """2-component vector field (shape (2,n) arrays), component-wise abstract values"""
    __slots__ = ("x", "y")

    def __init__(self, x, y):
        self.x = x
        self.y = y

    def comps(self):
        return (self.x, self.y)


class KIdx:
    """generic index of a loop  for i in range(N)  over a symbolic range: i = k + off"""
    def __init__(self, n, off=0):
        self.n, self.off = n, off


class RangeSym:
    def __init__(self, n):
        self.n = n


class ElemIndex:
    """the generic element index of an element-wise loop"""
    def __init__(self, name):
        self.name = name


class LenOf:
    def __init__(self, what):
        self.what = what


class ElemIter:
    """iteration over the entries of point-wise arrays (zip / enumerate of them): one generic entry"""
    def __init__(self, vals, enum, single=False):
        self.vals, self.enum, self.single = vals, enum, single


class RangeLen:
    def __init__(self, what):
        self.what = what


class ParamDict:
    """dictionary parameter (boundary-condition parameters)"""
    def __init__(self, entries, present=None, make=None):
        self.entries = dict(entries)
        self.present = set(present if present is not None else entries.keys())
        self.make = make

    def get(self, key):
        if key in getattr(self, "_popped", ()):
            raise AnalysisError("parameter %r was removed from this copy" % key)
        if key in self.entries:
            return self.entries[key]
        if self.make is not None:
            v = self.make(key)
            self.entries[key] = v
            return v
        raise AnalysisError("parameter %r not provided" % key)


def _pd_copy(entries, present=None, make=None):
    """a ParamDict that is a COPY made by the analysed code (dict(param), param.copy(), {**param}, copy.copy(param))"""
    d = ParamDict(entries, present=present, make=make)
    d._is_copy = True
    return d


class SelfObj:
    """abstract `self`: attribute table + concrete class for method resolution"""
    def __init__(self, cls, attrs):
        self.cls = cls
        self.attrs = attrs


class ObjStub:
    """abstract object with a fixed attribute table (values or python callables)"""
    def __init__(self, name, attrs):
        self.name = name
        self.attrs = attrs


class Row2D:
    """one row of a (2, n) vector field that KEPT its leading axis: shape (1, n), not (n,) -- what np.vsplit / np.split(v, 2) /
    v[0:1] return (the values are those of the component; the shape is not a scalar field's)"""
    def __init__(self, value, how):
        self.value, self.how = value, how


class VecMask:
    """boolean array of the shape (2, n) of a vector field (a comparison of a vector with something)"""
    def __init__(self, text):
        self.text = text


class OneShot:
    """a generator object (consumable once) holding the elements it would yield"""
    def __init__(self, items, line):
        self.items, self.line = items, line


class ExtCall:
    """result of a call into an external (not analysed) module"""
    def __init__(self, name, args, kwargs=None):
        self.name, self.args, self.kwargs = name, args, kwargs or {}


class OpaqueFn:
    def __init__(self, name, positive=False):
        self.name = name
        self.positive = positive


class BoundMethod:
    def __init__(self, selfobj, func):
        self.selfobj = selfobj
        self.func = func


class ModuleRef:
    def __init__(self, name):
        self.name = name


class SelfRecursion(AnalysisError):
    pass


class _Overlay(dict):
    """local bindings over a captured (live) environment"""
    def __init__(self, base):
        dict.__init__(self)
        self.base = base
        self.local = self

    def __contains__(self, k):
        return dict.__contains__(self, k) or k in self.base

    def __getitem__(self, k):
        if dict.__contains__(self, k):
            return dict.__getitem__(self, k)
        return self.base[k]


class _Return(Exception):
    def __init__(self, value):
        self.value = value


class _Break(Exception):
    pass


class _Continue(Exception):
    pass


class _HalfReturn(Exception):
    """one branch of a data-dependent `if` returned `value`; the other branch continues with the
    statements that follow, in `env` (first: the returning branch is the `if` body)"""
    def __init__(self, c, value, first, env):
        self.c, self.value, self.first, self.env = c, value, first, env


class Events:
    """side information recorded during interpretation (used by typing rules)"""
    def __init__(self):
        self.astype = []            # (function, line, dtype text, kind) of x.astype(T) calls
        self.noncovariant = []   # (lineno, description)
        self.neighbour_access = []   # element-wise violations
        self.inlined = []
        self.opaque_calls = []
        self.locals = {}         # function qualname -> {name: value} at return
        self.where_conditions = []
        self.base_init_calls = []
        self.inplace_owned = []  # in-place updates of arrays returned by uninterpreted callables
        self.linspaces = {}      # input name -> dict(a, b, num, endpoint)
        self.intsyms = {}        # atom name -> dict(expr, rounded)
        self.try_paths = []      # (function, line, caught exception names): the try body was taken, the handlers were not analysed


NP_UNARY = {"sqrt", "abs", "absolute", "sign", "log", "exp", "cos", "sin", "deg2rad", "square", "log1p", "expm1"}


class Interp:
    def __init__(self, project, dom, max_depth=6):
        self.p = project
        self.dom = dom
        self.max_depth = max_depth
        self.ev = Events()
        self.fold_locals = True
        self._in_primitive = 0     # inside flowdyn._data (the covariant vector primitives)
        self.stn = None            # stencil.Stn when slice code is analysed
        self.follow_base_init = True
        self.opaque_modules = ()   # module name prefixes whose calls are kept as ExtCall records
        self.range_hook = None     # hook(args, target name) for loops over symbolic ranges
        self.allow_try = False     # True: a non-re-raising try statement is interpreted along its body (the path on which nothing
                                   # is raised) and logged in ev.try_paths -- the caller must treat the handlers as unanalysed
        self._active_lambdas = []
        self._owned_names = set()
        self._last_opaque_call = None
        self.size_atom = None      # ring element standing for the mesh size n in value arithmetic
        self.on_setattr = None     # hook(obj, attr, value) -> value
        self.np_hooks = {}         # numpy function name -> python callable(args, kwargs)
        self.cond_policy = None      # list of outcomes for opaque conditions (np.isclose ...), None: unsupported
        self.cond_log = []
        self._masks = {}
        self._cond_stack = []      # data-dependent conditions of the enclosing if-converted branches: (condition, taken)

    # ------------------------------------------------------------------ entry points
    def call_function(self, func, args, kwargs=None, depth=0):
        """interpret FuncInfo `func` with positional args (including self object)"""
        if depth > self.max_depth:
            raise AnalysisError("inlining depth exceeded at %s" % func.qualname)
        if func.opaque_decorators:
            raise AnalysisError("%s is decorated with @%s: calling it is not calling its body (memoisation / compilation / wrapping not modelled)" % (func.qualname, ", @".join(func.opaque_decorators)))
        kwargs = kwargs or {}
        env = {}
        params = func.params
        defaults = func.defaults()
        if len(args) > len(params):
            raise AnalysisError("too many arguments for %s" % func.qualname)
        for n, a in zip(params, args):
            env[n] = a
        for n in params[len(args):]:
            if n in kwargs:
                env[n] = kwargs[n]
            elif n in defaults:
                env[n] = self.eval(defaults[n], {}, func, depth)
            else:
                raise AnalysisError("missing argument %s for %s" % (n, func.qualname))
        for k in kwargs:
            if k not in params:
                raise AnalysisError("unexpected keyword %s for %s" % (k, func.qualname))
        self.ev.inlined.append(func.qualname)
        prim = func.module.tail == "_data"
        if prim:
            self._in_primitive += 1
        try:
            self.exec_block(func.node.body, env, func, depth)
        except _Return as r:
            self.ev.locals[func.qualname] = env
            return r.value
        except _HalfReturn:
            raise AnalysisError("%s: return in one branch of a data-dependent if, the other path falls off the end or leaves a loop" % func.qualname)
        finally:
            if prim:
                self._in_primitive -= 1
        self.ev.locals[func.qualname] = env
        return None

    def _run_lambda(self, lam, env, lfunc, depth):
        """body of a lambda, or of a nested `def` (a closure: same value kind)"""
        if isinstance(lam, ast.Lambda):
            return self.eval(lam.body, env, lfunc, depth)
        try:
            self.exec_block(lam.body, env, lfunc, depth)
        except _Return as r:
            return r.value
        except _HalfReturn:
            raise AnalysisError("%s: nested function %s returns in one branch only" % (lfunc.qualname, lam.name))
        return None

    def _noncov(self, item):
        if not self._in_primitive:
            self.ev.noncovariant.append(item)

    def call_value(self, f, args):
        """call an abstract callable value (lambda / bound method / opaque function)"""
        fake = ast.parse("f()", mode="eval").body
        fake.lineno = 0

        class _F:
            qualname = "<call>"
            module = None
        if isinstance(f, BoundMethod):
            return self.call_function(f.func, [f.selfobj] + list(args), {}, 1)
        if isinstance(f, OpaqueFn):
            return self.dom.opaque(f.name, [self.lift(a) if self.is_num(a) else a for a in args], f.positive)
        if isinstance(f, tuple) and f and f[0] == "lambda":
            _, lam, lenv, lfunc, dvals = f
            if id(lam) in self._active_lambdas:
                raise SelfRecursion("lambda defined at line %d calls itself" % lam.lineno)
            e2 = _Overlay(lenv)
            names = [a.arg for a in lam.args.args]
            for n in names:
                if n in dvals:
                    e2[n] = dvals[n]
            for n, a in zip(names, args):
                e2[n] = a
            self._active_lambdas.append(id(lam))
            try:
                return self._run_lambda(lam, e2, lfunc, 1)
            finally:
                self._active_lambdas.pop()
        if callable(f):
            return f(*args)
        raise AnalysisError("value is not callable: %r" % (f,))

    # ------------------------------------------------------------------ statements
    def exec_block(self, stmts, env, func, depth):
        for i, st in enumerate(stmts):
            try:
                self.exec_stmt(st, env, func, depth)
            except _HalfReturn as h:
                # `if c: return X` followed by more statements  ==  `if c: return X  else: <rest>`
                try:
                    self.exec_block(stmts[i + 1:], h.env, func, depth)
                except _Return as r:
                    raise _Return(self.merge(h.c, h.value, r.value) if h.first else self.merge(h.c, r.value, h.value))
                raise _HalfReturn(h.c, h.value, h.first, h.env)

    def exec_stmt(self, st, env, func, depth):
        if isinstance(st, ast.Expr):
            if isinstance(st.value, ast.Constant):
                return
            self.eval(st.value, env, func, depth)
            return
        if isinstance(st, ast.FunctionDef) and not st.decorator_list and not st.args.vararg and not st.args.kwarg and not st.args.kwonlyargs:
            # nested function: a closure over the live environment, default values evaluated now
            names = [a.arg for a in st.args.args]
            dvals = {}
            for n, dflt in zip(names[len(names) - len(st.args.defaults):], st.args.defaults):
                dvals[n] = self.eval(dflt, env, func, depth)
            env[st.name] = ("lambda", st, env, func, dvals)
            return
        if isinstance(st, ast.Assign):
            self._last_opaque_call = None
            v = self.eval(st.value, env, func, depth)
            owned = isinstance(st.value, ast.Call) and self._last_opaque_call is st.value
            for t in st.targets:
                self.assign(t, v, env, func, depth)
                if isinstance(t, ast.Name):
                    if owned:
                        self._owned_names.add((id(env), t.id))
                    else:
                        self._owned_names.discard((id(env), t.id))
            return
        if isinstance(st, ast.AugAssign):
            base = st.target
            while isinstance(base, ast.Subscript):
                base = base.value
            if isinstance(base, ast.Name) and (id(env), base.id) in self._owned_names:
                self.ev.inplace_owned.append((st.lineno, base.id))
            cur = self.eval(_as_load(st.target), env, func, depth)
            rhs = self.eval(st.value, env, func, depth)
            v = self.binop(st.op, cur, rhs, st)
            self.assign(st.target, v, env, func, depth)
            return
        if isinstance(st, ast.Return):
            v = self.eval(st.value, env, func, depth) if st.value is not None else None
            raise _Return(v)
        if isinstance(st, ast.Pass):
            return
        if isinstance(st, ast.Break):
            raise _Break()          # caught by unrolled loops over concrete sequences only
        if isinstance(st, ast.Continue):
            raise _Continue()
        if isinstance(st, ast.Raise):
            raise AnalysisError("%s:%d raise statement reached in abstract execution" % (func.qualname, st.lineno))
        if isinstance(st, ast.If):
            # validation of a REQUIRED parameter:  if 'key' not in param: raise ...   on a parameter dictionary whose
            # entries are made on demand -- the key is required, hence provided (and present from here on)
            if not st.orelse and len(st.body) == 1 and isinstance(st.body[0], ast.Raise):
                keys = _required_keys(st.test)
                if keys is not None:
                    tgt = self.eval(keys[1], env, func, depth)
                    names = [k if isinstance(k, str) else self.eval(k, env, func, depth) for k in keys[0]]
                    if isinstance(tgt, ParamDict) and tgt.make is not None and all(isinstance(k, str) for k in names):
                        for k in names:
                            tgt.present.add(k)
                        return
            c = self.eval(st.test, env, func, depth)
            t = self.truth(c)
            if t is True:
                self.exec_block(st.body, env, func, depth)
                return
            if t is False:
                self.exec_block(st.orelse, env, func, depth)
                return
            # data-dependent branch: if-conversion
            env1 = _clone_env(env)
            env2 = _clone_env(env)
            r1 = r2 = None
            self._cond_stack.append((c, True))
            try:
                self.exec_block(st.body, env1, func, depth)
            except _Return as r:
                r1 = r
            finally:
                self._cond_stack.pop()
            self._cond_stack.append((c, False))
            try:
                self.exec_block(st.orelse, env2, func, depth)
            except _Return as r:
                r2 = r
            finally:
                self._cond_stack.pop()
            if r1 is not None or r2 is not None:
                if r1 is not None and r2 is not None:
                    raise _Return(self.merge(c, r1.value, r2.value))
                if r1 is not None:
                    raise _HalfReturn(c, r1.value, True, env2)
                raise _HalfReturn(c, r2.value, False, env1)
            for k in set(env1) | set(env2):
                if k in env1 and k in env2:
                    if env1[k] is env2[k]:
                        env[k] = env1[k]
                    else:
                        env[k] = self.merge(c, env1[k], env2[k])
                else:
                    raise AnalysisError("%s:%d variable %s defined in one branch only" % (func.qualname, st.lineno, k))
            return
        if isinstance(st, ast.For) and not getattr(self, "_in_for_guard", False):
            self._in_for_guard = True
            try:
                try:
                    return self.exec_stmt(st, env, func, depth)
                finally:
                    self._in_for_guard = False
            except _HalfReturn:
                raise AnalysisError("%s:%d data-dependent return inside a loop" % (func.qualname, st.lineno))
            except (_Break, _Continue):
                raise AnalysisError("%s:%d break / continue in a loop that is not unrolled" % (func.qualname, st.lineno))
        if isinstance(st, ast.For):
            self._in_for_guard = False
            it = self.eval(st.iter, env, func, depth)
            if isinstance(it, RangeLen):
                if not isinstance(st.target, ast.Name):
                    raise AnalysisError("unsupported loop target")
                env[st.target.id] = ElemIndex(st.target.id)
                self._elem_body(st, env, func, depth)
                return
            if isinstance(it, ElemIter) or ((self.dom.is_value(it) or _is_conc(it)) and not isinstance(it, (SArr, Vec)) and isinstance(st.target, ast.Name)):
                # for x in arr / for x, y in zip(a, b) / for c, (x, y) in enumerate(zip(a, b)): the generic entry
                if not isinstance(it, ElemIter):
                    it = ElemIter([self.lift(it)], False, single=True)
                item = it.vals[0] if it.single else list(it.vals)
                if it.enum:
                    item = [ElemIndex("#entry"), item]
                self.assign(st.target, item, env, func, depth)
                self._elem_body(st, env, func, depth)
                return
            if isinstance(it, tuple) and it and it[0] == "rangehook":
                if not isinstance(st.target, ast.Name):
                    raise AnalysisError("unsupported loop target")
                env[st.target.id] = self.range_hook(it[1], st.target.id)
                self.exec_block(st.body, env, func, depth)
                return
            if isinstance(it, RangeSym):
                if not isinstance(st.target, ast.Name):
                    raise AnalysisError("unsupported loop target")
                env[st.target.id] = KIdx(it.n)
                self.exec_block(st.body, env, func, depth)
                return
            if isinstance(it, (list, tuple, range)):
                if len(it) > 64:
                    raise AnalysisError("loop too long to unroll")
                for x in it:
                    self.assign(st.target, x, env, func, depth)
                    try:
                        self.exec_block(st.body, env, func, depth)
                    except _Continue:
                        continue
                    except _Break:
                        break
                return
            raise AnalysisError("%s:%d unsupported loop iterable %s" % (func.qualname, st.lineno, unparse(st.iter)))
        if isinstance(st, ast.Try) and self.allow_try:
            names = []
            for h in st.handlers:
                t = h.type
                names += [unparse(x) for x in (t.elts if isinstance(t, ast.Tuple) else [t])] if t is not None else ["<bare>"]
            self.ev.try_paths.append((func.qualname, st.lineno, names))
            self.exec_block(st.body, env, func, depth)
            self.exec_block(st.orelse, env, func, depth)
            self.exec_block(st.finalbody, env, func, depth)
            return
        raise AnalysisError("%s:%d unsupported statement %s" % (func.qualname, st.lineno, type(st).__name__))

    def _extremum(self, arr, name):
        """extremum of an array over the cells: the common value when every entry is the same expression without
        reference to the cell (a constant array), otherwise a quantity the analysis does not resolve"""
        if len(arr.segs) == 1:
            v = arr.segs[0][2]
            alg = getattr(self.dom, "alg", None)
            if alg is not None and not any("@" in alg.atoms[a].name for a in alg.atoms_of(v)):
                return v
        self._nred = getattr(self, "_nred", 0) + 1
        pos = False
        alg = getattr(self.dom, "alg", None)
        if alg is not None:
            try:
                pos = all(alg.sign(sg[2]) in ("+", ">=0") for sg in arr.segs)      # extremum of |x|, x^2 ...: not negative
            except Exception:
                pos = False
        return self.dom.opaque("%s_over_cells" % name, [self.dom.const(self._nred)], pos)

    def _elem_body(self, st, env, func, depth):
        """body of a loop over the ENTRIES of point-wise arrays, run once for the generic entry.  A `break` anywhere
        in it (conditional or not) leaves the entries after the first one that meets the condition uncomputed: what
        entry k holds then depends on the entries before it -- not element-wise.  (`continue` only skips the entry.)"""
        brk = [n for b in st.body for n in ast.walk(b) if isinstance(n, ast.Break)]
        inner = [n for b in st.body for l in ast.walk(b) if isinstance(l, (ast.For, ast.While)) for n in ast.walk(l) if isinstance(n, ast.Break)]
        brk = [n for n in brk if not any(n is m for m in inner)]
        if brk:
            self.ev.neighbour_access.append((brk[0].lineno, "break"))
            raise AnalysisError("%s:%d non point-wise loop: `break` (line %d) ends the loop over the entries at the first entry that meets its condition, so every entry after it keeps its initial value -- the result at one position depends on the values before it" % (func.qualname, st.lineno, brk[0].lineno))
        try:
            self.exec_block(st.body, env, func, depth)
        except _Continue:
            pass

    def merge(self, c, a, b):
        if isinstance(a, list) and isinstance(b, list) and len(a) == len(b):
            return [self.merge(c, x, y) for x, y in zip(a, b)]
        if isinstance(a, Vec) or isinstance(b, Vec):
            a, b = self._as_vec(a), self._as_vec(b)
            return Vec(self.dom.where(c, a.x, b.x), self.dom.where(c, a.y, b.y))
        if self.is_num(a) and self.is_num(b):
            if _is_conc(a) and _is_conc(b) and a == b:
                return a
            return self.dom.where(c, self.lift(a), self.lift(b))
        if a is b:
            return a
        raise AnalysisError("cannot merge values of a data-dependent branch")

    def assign(self, target, v, env, func, depth):
        if isinstance(target, ast.Name):
            if self.fold_locals and self.dom.is_value(v):
                v = self.dom.fold(v, target.id)
            env[target.id] = v
            return
        if isinstance(target, (ast.Tuple, ast.List)):
            if not isinstance(v, (list, tuple)) or len(v) != len(target.elts):
                raise AnalysisError("%s:%d cannot unpack" % (func.qualname, target.lineno))
            for t, x in zip(target.elts, v):
                self.assign(t, x, env, func, depth)
            return
        if isinstance(target, ast.Subscript):
            cont = self.eval(target.value, env, func, depth)
            idx = self.eval_index(target.slice, env, func, depth)
            if hasattr(cont, "_fd_setitem"):
                cont._fd_setitem(idx, v, self)
                return
            if isinstance(cont, list):
                if isinstance(idx, int):
                    cont[idx] = v
                    return
                raise AnalysisError("%s:%d unsupported list store" % (func.qualname, target.lineno))
            if type(cont) is dict:
                cont[self._freeze_key(idx)] = v          # a dictionary the code itself built (a table, a memo)
                return
            if isinstance(cont, Vec) and isinstance(idx, tuple) and len(idx) == 2 and isinstance(idx[0], int) and _full_slice(idx[1]):
                val = self.lift(v)
                if idx[0] == 0:
                    cont.x = val
                elif idx[0] == 1:
                    cont.y = val
                else:
                    raise AnalysisError("%s:%d vector component %d" % (func.qualname, target.lineno, idx[0]))
                return
            if isinstance(cont, SArr):
                if isinstance(v, Vec):
                    raise AnalysisError("vector stored into a 1D array")
                if not isinstance(v, SArr):
                    v = self.lift(v)
                if isinstance(idx, slice):
                    if idx.step is not None:
                        raise AnalysisError("%s:%d strided slice store" % (func.qualname, target.lineno))
                    self.stn.assign_slice(cont, idx.start, idx.stop, v)
                elif isinstance(idx, KIdx):
                    self.stn.assign_slice(cont, idx.off, NLin.lift(idx.n) + idx.off, v)
                else:
                    if isinstance(v, SArr):
                        raise AnalysisError("%s:%d array stored into one element" % (func.qualname, target.lineno))
                    self.stn.assign_elem(cont, idx, v)
                return
            # element store into an abstract array:  arr[c] = v   (arr held in a list slot or name)
            if isinstance(idx, ElemIndex):
                self.store_back(target.value, v, env, func, depth)
                return
            # masked store  arr[mask] = v : point-wise selection between the new and the old value
            if self.is_mask(idx) and (self.dom.is_value(cont) or _is_conc(cont)) and self.is_num(v) and not isinstance(v, SArr):
                self.store_back(target.value, self.dom.where(idx, self.lift(v), self.lift(cont)), env, func, depth)
                return
            if _full_slice(idx) and (self.dom.is_value(cont) or _is_conc(cont)) and self.is_num(v) and not isinstance(v, SArr):
                self.store_back(target.value, self.lift(v), env, func, depth)
                return
            raise AnalysisError("%s:%d unsupported subscript store %s" % (func.qualname, target.lineno, unparse(target)))
        if isinstance(target, ast.Attribute):
            obj = self.eval(target.value, env, func, depth)
            if isinstance(obj, SelfObj):
                if self.on_setattr is not None:
                    v = self.on_setattr(obj, target.attr, v)
                obj.attrs[target.attr] = v
                return
        raise AnalysisError("%s:%d unsupported assignment target %s" % (func.qualname, target.lineno, unparse(target)))

    def store_back(self, node, v, env, func, depth):
        """store v as the new (point-wise) value of the array denoted by node"""
        if isinstance(node, ast.Name):
            env[node.id] = v
            return
        if isinstance(node, ast.Subscript):
            cont = self.eval(node.value, env, func, depth)
            idx = self.eval_index(node.slice, env, func, depth)
            if isinstance(cont, list) and isinstance(idx, int):
                cont[idx] = v
                return
        raise AnalysisError("%s:%d unsupported element store" % (func.qualname, node.lineno))

    # ------------------------------------------------------------------ expressions
    def is_num(self, v):
        return _is_conc(v) or self.dom.is_value(v) or isinstance(v, SArr)

    def lift(self, v):
        if self.dom.is_value(v) or isinstance(v, SArr):
            return v
        if _is_conc(v):
            return self.dom.const(Fraction(v))
        raise AnalysisError("expected a numeric value, got %r" % (v,))

    def truth(self, c):
        if isinstance(c, bool):
            return c
        if getattr(c, "_fd_cond", False):
            return None
        if c is None:
            return False
        if _is_conc(c):
            return c != 0
        if isinstance(c, (list, tuple, dict, str)):
            return len(c) > 0
        if self.dom.is_value(c):
            return self.dom.truth(c)
        if isinstance(c, (OpaqueFn, BoundMethod)):
            return True
        raise AnalysisError("cannot decide truth of %r" % (c,))

    def eval_index(self, node, env, func, depth):
        if isinstance(node, ast.Tuple):
            return tuple(self.eval_index(e, env, func, depth) for e in node.elts)
        if isinstance(node, ast.Slice):
            # x[-k:] with a COMPUTED k: "the last k entries" -- except for k = 0, where -0 is 0 and the slice is the WHOLE array
            if node.lower is not None and node.upper is None and isinstance(node.lower, ast.UnaryOp) and isinstance(node.lower.op, ast.USub) \
                    and not isinstance(node.lower.operand, ast.Constant):
                k = self.eval(node.lower.operand, env, func, depth)
                if isinstance(k, int) and not isinstance(k, bool):
                    if k == 0:
                        raise AnalysisError("%s:%d slice [-0:]" % (func.qualname, node.lineno))
                elif self.dom.is_value(k):
                    alg = getattr(self.dom, "alg", None)
                    pos = None
                    if alg is not None and hasattr(alg, "sign"):
                        try:
                            # (a slice bound is an INTEGER: positive means >= 1)
                            pos = alg.sign(k) == "+" or alg.sign(alg.sub(k, alg.const(1))) in ("+", ">=0", "0")
                        except Exception:
                            pos = None
                    if not pos:
                        e = AnalysisError("%s:%d suffix slice with a count that may be zero" % (func.qualname, node.lineno))
                        e.violation = ("NEG-ZERO-SLICE", func.qualname, "`[%s]` (line %d) means \"the last k entries\" only for k >= 1: when the computed count `%s` is 0, `-0` is `0` and the slice is the WHOLE array (an empty second zone scales every cell; an empty tail selects everything) -- nothing makes the count positive here" % (unparse(node)[:40], node.lineno, unparse(node.lower.operand)[:40]),
                                       "neg-zero-slice", {"C20", "C01", "C11", "C14", "C15", "C13", "C03", "C04"})
                        raise e
            lo = self.eval(node.lower, env, func, depth) if node.lower else None
            hi = self.eval(node.upper, env, func, depth) if node.upper else None
            stp = self.eval(node.step, env, func, depth) if node.step else None
            return slice(lo, hi, stp)
        return self.eval(node, env, func, depth)

    def eval(self, node, env, func, depth):
        ln = getattr(node, "lineno", None)
        if ln is not None and hasattr(self.dom, "cur_line"):
            self.dom.cur_line = ln
            self.dom.cur_func = func.qualname
        m = getattr(self, "e_" + type(node).__name__, None)
        if m is None:
            raise AnalysisError("%s:%d unsupported expression %s" % (func.qualname, getattr(node, "lineno", 0), type(node).__name__))
        return m(node, env, func, depth)

    def e_Constant(self, node, env, func, depth):
        v = node.value
        if isinstance(v, bool) or v is None or isinstance(v, str) or v is Ellipsis:
            return v
        if isinstance(v, int):
            return v
        if isinstance(v, float):
            f = frac_of_constant(v)
            return f
        raise AnalysisError("unsupported constant")

    def e_Name(self, node, env, func, depth):
        if node.id in env:
            return env[node.id]
        mod = func.module
        if node.id in ("np", "numpy", "math"):
            return ModuleRef("np")
        if node.id in mod.imports:
            tgt = mod.imports[node.id]
            if tgt in ("numpy", "math"):
                return ModuleRef("np")
            return ModuleRef(tgt)
        f = self.p.resolve_function_name(node.id, mod)
        if f is not None:
            return f
        ci = self.p.resolve_class_expr(node, mod)
        if ci is not None:
            o = ObjStub("class " + ci.name, {r: "registry:%s.%s" % (ci.name, r) for c in self.p.mro(ci) for r in c.registries})
            o.cls = ci
            return o
        if node.id in ("abs", "len", "range", "min", "max", "float", "int", "enumerate", "zip", "round", "list", "slice", "getattr", "setattr", "hasattr", "isinstance", "tuple", "dict", "bool", "type", "any", "all"):
            return ModuleRef("builtin:" + node.id)
        if node.id in mod.assigns and isinstance(mod.assigns[node.id], (ast.Dict, ast.List, ast.Tuple, ast.Constant)):
            return self.eval(mod.assigns[node.id], {}, func, depth)        # a module-level literal (a default table)
        if node.id in mod.assigns and isinstance(mod.assigns[node.id], ast.Call) and isinstance(mod.assigns[node.id].func, ast.Name) \
                and mod.assigns[node.id].func.id == "object" and not mod.assigns[node.id].args:
            # a private sentinel `_MISSING = object()`: one object, equal to nothing else
            return self._sentinel((mod.short, node.id), node.id)
        raise AnalysisError("%s:%d unknown name %s" % (func.qualname, node.lineno, node.id))

    def _super_class(self, call, env, func, attr):
        """class whose `attr` is reached by super().attr inside func (MRO of the object's class,
        after the class that defines func)"""
        if not func.params or func.params[0] not in env or func.cls is None:
            raise AnalysisError("%s:%d super() outside a method" % (func.qualname, call.lineno))
        obj = env[func.params[0]]
        start = func.cls
        if call.args:
            start = self.p.resolve_class_expr(call.args[0], func.module) or start
        ocls = getattr(obj, "cls", None) or start
        mro = self.p.mro(ocls)
        if start not in mro:
            mro = self.p.mro(start)
        for c in mro[mro.index(start) + 1:]:
            if attr in c.methods:
                return c
        return None

    def e_Attribute(self, node, env, func, depth):
        if _is_super_call(node.value):
            c = self._super_class(node.value, env, func, node.attr)
            if c is None:
                raise AnalysisError("%s:%d super().%s not found" % (func.qualname, node.lineno, node.attr))
            return BoundMethod(env[func.params[0]], c.methods[node.attr])
        return self._attr_of(self.eval(node.value, env, func, depth), node.attr, func, node, depth)

    @staticmethod
    def _is_sentinel_expr(expr):
        return isinstance(expr, ast.Call) and isinstance(expr.func, ast.Name) and expr.func.id == "object" and not expr.args and not expr.keywords

    def _sentinel(self, key, name):
        if not hasattr(self, "_sentinels"):
            self._sentinels = {}
        return self._sentinels.setdefault(key, ObjStub("sentinel " + name, {}))

    def _attr_of(self, obj, a, func, node, depth):
        if isinstance(obj, SelfObj):
            if a in obj.attrs:
                return obj.attrs[a]
            f = self.p.resolve(obj.cls, a)
            if f is not None:
                if f.is_property:
                    return self.call_function(f, [obj], {}, depth + 1)
                return f if f.is_static else BoundMethod(obj, f)
            c, expr = self.p.class_attr(obj.cls, a)
            if expr is not None:
                if self._is_sentinel_expr(expr):
                    return self._sentinel((c.qualname, a), a)
                return self.eval(expr, {}, func, depth)       # class-level constant / table read through the instance
            raise AnalysisError("%s:%d attribute self.%s unknown to the analysis" % (func.qualname, node.lineno, a))
        if isinstance(obj, ModuleRef):
            if obj.name in ("np", "math") and a in ("inf", "Inf", "infty", "PINF"):
                return float("inf")
            return ModuleRef(obj.name + "." + a)
        if isinstance(obj, ObjStub):
            if a in obj.attrs:
                return obj.attrs[a]
            if getattr(obj, "cls", None) is not None:
                c, expr = self.p.class_attr(obj.cls, a)
                if expr is not None:
                    if self._is_sentinel_expr(expr):
                        return self._sentinel((c.qualname, a), a)
                    return self.eval(expr, {}, func, depth)       # class-level constant / table
                g = self.p.resolve(obj.cls, a)
                if g is not None:
                    return g                                      # Class.method: plain function (explicit self)
            raise AnalysisError("%s:%d attribute %s.%s unknown to the analysis" % (func.qualname, node.lineno, obj.name, a))
        if a == "ndim" and hasattr(obj, "_fd_getitem"):
            return obj.ndim
        if isinstance(obj, SArr):
            if a == "size":
                return obj.length
            if a == "ndim":
                return 1
            if a in ("copy", "min", "max", "sum", "mean"):
                return ("method", obj, a)
        if a == "ndim":
            if isinstance(obj, Vec):
                return 2
            if self.dom.is_value(obj) or _is_conc(obj):
                return 1
        if a == "size" and (self.dom.is_value(obj) or isinstance(obj, Vec)):
            return LenOf(obj)
        if isinstance(obj, dict) and a in ("get", "keys", "values", "items"):
            return ("method", obj, a)
        if type(obj) is dict and a in ("update", "setdefault", "pop", "copy"):
            return ("method", obj, a)
        if isinstance(obj, ParamDict) and a in ("get", "keys", "copy", "pop"):
            return ("method", obj, a)
        if a in ("copy", "append", "keys", "astype") or a == "T":
            return ("method", obj, a)
        if a == "dtype" and (self.dom.is_value(obj) or _is_conc(obj) or isinstance(obj, (SArr, Vec))):
            return "<dtype of a value>"         # only handed on to allocations (dtype=...): the values do not depend on it here
        if a in ("all", "any") and self.dom.is_value(obj) and not self.is_mask(obj) and not isinstance(obj, (bool, int, Fraction)):
            # x.all() / x.any() of a FLOAT array: the truth value of a float is "non-zero" -- the test is "no entry is exactly 0" /
            # "some entry is not 0", taken once for ALL the entries of the call
            e = AnalysisError("%s:%d .%s() of a numeric (not boolean) array" % (func.qualname, node.lineno, a))
            e.violation = ("POINTWISE-REDUCE", func.qualname, "`%s` (line %d): .%s() of a FLOAT array tests its entries for being exactly zero (truthiness), ONCE for all the entries of the call -- under `not` it reads \"at least one entry is exactly 0\", not \"every entry is\"; the branch it guards is then taken for every face / cell of the call, whatever their own values" % (unparse(node)[:50], node.lineno, a),
                           "float-truth-reduce", {"C01", "C02", "C03", "C10", "C12", "C13", "C14", "C15", "C16", "C17", "C18", "C11", "C04"})
            raise e
        raise AnalysisError("%s:%d unsupported attribute .%s" % (func.qualname, node.lineno, a))

    def e_List(self, node, env, func, depth):
        return [self.eval(e, env, func, depth) for e in node.elts]

    def _freeze_key(self, k):
        """hashable form of a dictionary key: tuples (lists here) structurally, abstract numbers by their canonical form where the
        domain has one and by identity otherwise (a lookup that misses an equal key recomputes the value: what a complete
        memo stores is what a recomputation gives)"""
        if isinstance(k, (list, tuple)):
            return tuple(self._freeze_key(x) for x in k)
        if self.dom.is_value(k) and not isinstance(k, (int, float, Fraction, str, bool)):
            alg = getattr(self.dom, "alg", None)
            try:
                return ("value", alg.key(k)) if alg is not None and hasattr(alg, "key") else ("value", id(k))
            except Exception:
                return ("value", id(k))
        try:
            hash(k)
        except TypeError:
            return ("object", id(k))
        return k

    def e_Tuple(self, node, env, func, depth):
        return [self.eval(e, env, func, depth) for e in node.elts]

    def e_Dict(self, node, env, func, depth):
        if any(k is None for k in node.keys):
            # {k: v, **D, ...}: layers in source order, the LAST layer that has a key wins.  A parameter dictionary whose
            # entries are made on demand stands for "whatever the caller put there": it may hold any key, so for every
            # key it comes after it wins (the case of a caller whose dictionary carries that key too)
            layers = []
            cur = {}
            for k, v in zip(node.keys, node.values):
                if k is None:
                    if cur:
                        layers.append(cur)
                        cur = {}
                    layers.append(self.eval(v, env, func, depth))
                else:
                    cur[self.eval(k, env, func, depth)] = self.eval(v, env, func, depth)
            if cur:
                layers.append(cur)
            if not all(isinstance(l, (dict, ParamDict)) for l in layers):
                raise AnalysisError("%s:%d dictionary unpacking of a non-dictionary" % (func.qualname, node.lineno))

            def lookup(key):
                for l in reversed(layers):
                    if isinstance(l, dict):
                        if key in l:
                            return l[key]
                    elif key in l.entries or key in l.present or l.make is not None:
                        return l.get(key)
                raise AnalysisError("parameter %r not provided" % key)
            present = set()
            for l in layers:
                present |= set(l.keys()) if isinstance(l, dict) else set(l.present) | set(l.entries)
            return _pd_copy({}, present=present, make=lookup)
        out = {}
        for k, v in zip(node.keys, node.values):
            out[self.eval(k, env, func, depth)] = self.eval(v, env, func, depth)
        return out

    def e_ListComp(self, node, env, func, depth):
        if len(node.generators) != 1:
            raise AnalysisError("unsupported comprehension")
        g = node.generators[0]
        it = self.eval(g.iter, env, func, depth)
        if not isinstance(it, (list, tuple, range)):
            raise AnalysisError("unsupported comprehension iterable")
        out = []
        for x in it:
            e2 = dict(env)
            self.assign(g.target, x, e2, func, depth)
            keep = True
            for c in g.ifs:
                cv = self.eval(c, e2, func, depth)
                t = (cv is not None and cv is not False and cv != 0) if (cv is None or isinstance(cv, (bool, int, OpaqueFn)) or callable(cv)) else self.truth(cv)
                if t is None:
                    raise AnalysisError("%s:%d comprehension filter not decided" % (func.qualname, node.lineno))
                keep = keep and bool(t)
            if keep:
                out.append(self.eval(node.elt, e2, func, depth))
        return out

    def e_DictComp(self, node, env, func, depth):
        if len(node.generators) != 1:
            raise AnalysisError("unsupported comprehension")
        g = node.generators[0]
        it = self.eval(g.iter, env, func, depth)
        if isinstance(it, dict):
            it = list(it)
        if not isinstance(it, (list, tuple, range)):
            raise AnalysisError("unsupported comprehension iterable")
        out = {}
        for x in it:
            e2 = dict(env)
            self.assign(g.target, x, e2, func, depth)
            keep = True
            for c in g.ifs:
                t = self.truth(self.eval(c, e2, func, depth))
                if t is None:
                    raise AnalysisError("%s:%d comprehension filter not decided" % (func.qualname, node.lineno))
                keep = keep and bool(t)
            if keep:
                out[self._freeze_key(self.eval(node.key, e2, func, depth))] = self.eval(node.value, e2, func, depth)
        return out

    def e_GeneratorExp(self, node, env, func, depth):
        # a generator object: the same elements as the list comprehension, but it can be consumed ONCE.
        # Passed at once to a builtin (any / all / sum / list / tuple / sorted) it is just a sequence; kept in
        # a name or an attribute it is one-shot state (OneShot), which the rules that meet it report.
        it = self.eval(node.generators[0].iter, env, func, depth) if len(node.generators) == 1 else None
        if isinstance(it, dict):
            fake = ast.copy_location(ast.ListComp(elt=node.elt, generators=node.generators), node)
            g = node.generators[0]
            out = []
            for x in list(it):
                e2 = dict(env)
                self.assign(g.target, x, e2, func, depth)
                out.append(self.eval(node.elt, e2, func, depth))
            return OneShot(out, node.lineno)
        return OneShot(self.e_ListComp(ast.copy_location(ast.ListComp(elt=node.elt, generators=node.generators), node), env, func, depth), node.lineno)

    def e_IfExp(self, node, env, func, depth):
        c = self.eval(node.test, env, func, depth)
        t = self.truth(c)
        if t is True:
            return self.eval(node.body, env, func, depth)
        if t is False:
            return self.eval(node.orelse, env, func, depth)
        return self.merge(c, self.eval(node.body, env, func, depth), self.eval(node.orelse, env, func, depth))

    def e_UnaryOp(self, node, env, func, depth):
        v = self.eval(node.operand, env, func, depth)
        if isinstance(node.op, ast.USub):
            return self.neg(v)
        if isinstance(node.op, ast.UAdd):
            return v
        if isinstance(node.op, ast.Not):
            t = self.truth(v)
            if t is None:
                return self.dom.cnot(v)
            return not t
        if isinstance(node.op, ast.Invert):
            if getattr(self, "invert_scalar_violation", None) is not None and (self.is_mask(v) or isinstance(v, bool)):
                raise self.invert_scalar_violation(node, func)
            if self.dom.is_value(v):
                return self._mask(self.dom.cnot(v))
        raise AnalysisError("unsupported unary operator")

    def neg(self, v):
        if _is_conc(v):
            return -v
        if isinstance(v, NLin):
            return -v
        if isinstance(v, SArr):
            return self.stn.zip_map(lambda x: self.dom.neg(x), v)
        if isinstance(v, Vec):
            return Vec(self.dom.neg(v.x), self.dom.neg(v.y))
        if self.dom.is_value(v):
            return self.dom.neg(v)
        raise AnalysisError("cannot negate %r" % (v,))

    def e_BoolOp(self, node, env, func, depth):
        # Python semantics while the operands have a decidable truth value: short circuit, and the
        # result is the deciding OPERAND (`source or ()`), not its truth value
        is_and = isinstance(node.op, ast.And)
        vals = []
        for i, vn in enumerate(node.values):
            v = self.eval(vn, env, func, depth)
            t = self.truth(v)
            vals.append(v)
            if t is None:
                vals.extend(self.eval(x, env, func, depth) for x in node.values[i + 1:])
                break
            if t != is_and or i == len(node.values) - 1:
                return v
        ts = [self.truth(v) for v in vals]
        acc = None
        for v, t in zip(vals, ts):
            if t is not None:
                if isinstance(node.op, ast.And):
                    if not t:
                        return False
                    continue
                else:
                    if t:
                        return True
                    continue
            acc = v if acc is None else (self.dom.cand(acc, v) if isinstance(node.op, ast.And) else self.dom.cor(acc, v))
        return acc

    def e_Compare(self, node, env, func, depth):
        if len(node.ops) != 1:
            raise AnalysisError("chained comparison unsupported")
        a = self.eval(node.left, env, func, depth)
        b = self.eval(node.comparators[0], env, func, depth)
        op = node.ops[0]
        if isinstance(op, (ast.In, ast.NotIn)):
            if isinstance(b, ParamDict):
                r = a in b.present
            elif isinstance(b, dict):
                r = self._freeze_key(a) in b
            elif isinstance(b, (list, tuple)):
                r = a in b
            else:
                raise AnalysisError("unsupported membership test")
            return r if isinstance(op, ast.In) else not r
        if isinstance(op, (ast.Is, ast.IsNot)) and isinstance(a, str) and isinstance(b, str):
            e = AnalysisError("%s:%d identity comparison of two strings" % (func.qualname, node.lineno))
            e.violation = ("STR-IDENTITY", func.qualname, "`%s` (line %d) compares two strings by IDENTITY: true only when both are the same object (interned literals of the source), false for an equal string built at run time (read from a file, `'PER'.lower()`, a numpy str) -- the branch taken depends on how the caller spelled the string, not on its value" % (unparse(node)[:70], node.lineno),
                           "str-is", {"C01", "C03", "C11", "C13", "C14", "C15", "C16"})
            raise e
        if isinstance(op, (ast.Is, ast.IsNot)):
            r = (a is b) or (a is None and b is None)
            return r if isinstance(op, ast.Is) else not r
        sym = {ast.Lt: "<", ast.LtE: "<=", ast.Gt: ">", ast.GtE: ">=", ast.Eq: "==", ast.NotEq: "!="}[type(op)]
        if isinstance(a, Vec) or isinstance(b, Vec):
            return VecMask(unparse(node))
        if hasattr(a, "_fd_compare"):
            return a._fd_compare(sym, b)
        if hasattr(b, "_fd_compare"):
            return b._fd_compare(sym, a)
        if isinstance(a, bool) and isinstance(b, bool) and sym in ("==", "!="):
            return (a == b) if sym == "==" else (a != b)
        if _is_conc(a) and _is_conc(b) or isinstance(a, str) or isinstance(b, str) or a is None or b is None:
            if sym == "==":
                return a == b
            if sym == "!=":
                return a != b
            if a is None or b is None or isinstance(a, str) or isinstance(b, str):
                raise AnalysisError("unsupported comparison")
            return {"<": a < b, "<=": a <= b, ">": a > b, ">=": a >= b}[sym]
        if isinstance(a, NLin) or isinstance(b, NLin):
            try:
                a2, b2 = NLin.lift(a), NLin.lift(b)
            except AnalysisError:
                raise AnalysisError("%s:%d unsupported comparison of sizes" % (func.qualname, node.lineno))
            if sym == "==":
                return a2 == b2
            if sym == "!=":
                return a2 != b2
            return {"<": a2.lt(b2), "<=": a2.le(b2), ">": b2.lt(a2), ">=": b2.le(a2)}[sym]
        if isinstance(a, LenOf) or isinstance(b, LenOf):
            # size consistency checks (mesh.ncell != nc): assume consistent sizes
            return sym in ("==", "<=", ">=")
        if (isinstance(a, SArr) or isinstance(b, SArr)) and self.stn is not None and sym in ("<", "<=", ">", ">="):
            # element-wise comparison of stencil arrays: an array of conditions (used as a where= mask)
            return self.stn.zip_map(lambda x, y: self.dom.cmp(sym, self.lift(x), self.lift(y)), a, b)
        if self.is_num(a) and self.is_num(b):
            if sym in ("==", "!="):
                raise AnalysisError("equality comparison of data values unsupported")
            return self._mask(self.dom.cmp(sym, self.lift(a), self.lift(b)))
        raise AnalysisError("%s:%d unsupported comparison %s" % (func.qualname, node.lineno, unparse(node)))

    def _mask(self, c):
        """remember that c is the result of a comparison: used as an index it is a boolean mask
        (a point-wise selection), not a position"""
        if self.dom.is_value(c):
            self._masks[id(c)] = c
        return c

    def is_mask(self, c):
        return self.dom.is_value(c) and self._masks.get(id(c)) is c

    def e_BinOp(self, node, env, func, depth):
        a = self.eval(node.left, env, func, depth)
        b = self.eval(node.right, env, func, depth)
        return self.binop(node.op, a, b, node)

    def binop(self, op, a, b, node=None):
        ln = getattr(node, "lineno", 0)
        if hasattr(a, "_fd_binop"):
            return a._fd_binop(op, b, False, self)
        if hasattr(b, "_fd_binop"):
            return b._fd_binop(op, a, True, self)
        if isinstance(a, KIdx) or isinstance(b, KIdx):
            k, o = (a, b) if isinstance(a, KIdx) else (b, a)
            if isinstance(o, int) and isinstance(op, ast.Add):
                return KIdx(k.n, k.off + o)
            if isinstance(o, int) and isinstance(op, ast.Sub) and k is a:
                return KIdx(k.n, k.off - o)
            raise AnalysisError("line %d: unsupported index arithmetic" % ln)
        if self.size_atom is not None and (isinstance(a, NLin) or isinstance(b, NLin)) and (self.dom.is_value(a) or self.dom.is_value(b) or isinstance(a, Fraction) or isinstance(b, Fraction) or isinstance(op, (ast.Div, ast.Mult)) and isinstance(a, NLin) and isinstance(b, NLin)):
            cv = lambda x: (self.dom.add(self.dom.mul(self.size_atom, self.dom.const(x.a)), self.dom.const(x.b)) if isinstance(x, NLin) else x)
            return self.binop(op, cv(a), cv(b), node)
        if (isinstance(a, NLin) or isinstance(b, NLin)) and not isinstance(a, SArr) and not isinstance(b, SArr):
            if (isinstance(a, (NLin, int)) or (isinstance(a, Fraction) and a.denominator == 1)) and (isinstance(b, (NLin, int)) or (isinstance(b, Fraction) and b.denominator == 1)):
                x, y = NLin.lift(a), NLin.lift(b)
                if isinstance(op, ast.Add):
                    return x + y
                if isinstance(op, ast.Sub):
                    return x - y
                if isinstance(op, ast.Mult) and (x.is_const() or y.is_const()):
                    return x * y.b if y.is_const() else y * x.b
            raise AnalysisError("line %d: non-affine arithmetic on the mesh size" % ln)
        if isinstance(a, SArr) or isinstance(b, SArr):
            if isinstance(a, Vec) or isinstance(b, Vec):
                raise AnalysisError("line %d: vector combined with a 1D array" % ln)
            x = a if isinstance(a, SArr) else self.lift(a)
            y = b if isinstance(b, SArr) else (b if isinstance(op, ast.Pow) else self.lift(b))
            if isinstance(op, ast.Pow):
                if isinstance(y, SArr):
                    raise AnalysisError("line %d: array exponent" % ln)
                return self.stn.zip_map(lambda u: self.binop(op, u, y, node), x)
            return self.stn.zip_map(lambda u, v: self.binop(op, u, v, node), x, y)
        if _is_conc(a) and _is_conc(b):
            try:
                if isinstance(op, ast.Add):
                    return a + b
                if isinstance(op, ast.Sub):
                    return a - b
                if isinstance(op, ast.Mult):
                    return a * b
                if isinstance(op, ast.Div):
                    return Fraction(a) / Fraction(b)
                if isinstance(op, ast.Pow):
                    if isinstance(b, int) or Fraction(b).denominator == 1:
                        return Fraction(a) ** int(b)
                    return self.dom.pow(self.lift(a), Fraction(b))
                if isinstance(op, ast.Mod):
                    return a % b
                if isinstance(op, ast.FloorDiv):
                    return a // b
            except ZeroDivisionError:
                raise AnalysisError("division by zero in constant expression")
        if isinstance(a, list) and isinstance(b, list) and isinstance(op, ast.Add):
            return a + b
        if isinstance(a, list) and isinstance(b, int) and isinstance(op, ast.Mult):
            return a * b
        va, vb = isinstance(a, Vec), isinstance(b, Vec)
        if va or vb:
            return self.vec_binop(op, a, b, ln)
        if not (self.is_num(a) and self.is_num(b)):
            raise AnalysisError("line %d: unsupported operands %r, %r" % (ln, type(a).__name__, type(b).__name__))
        d = self.dom
        if isinstance(op, ast.Pow):
            return d.pow(self.lift(a), b if _is_conc(b) else b)
        a, b = self.lift(a), self.lift(b)
        if isinstance(op, ast.Add):
            return d.add(a, b)
        if isinstance(op, ast.Sub):
            return d.sub(a, b)
        if isinstance(op, ast.Mult):
            return d.mul(a, b)
        if isinstance(op, ast.Div):
            return d.div(a, b)
        if isinstance(op, ast.BitAnd):
            return self._mask(d.cand(a, b))
        if isinstance(op, ast.BitOr):
            return self._mask(d.cor(a, b))
        raise AnalysisError("line %d: unsupported operator %s" % (ln, type(op).__name__))

    def _as_vec(self, v):
        if isinstance(v, Vec):
            return v
        v = self.lift(v)
        return Vec(v, v)

    def vec_binop(self, op, a, b, ln):
        d = self.dom
        va, vb = isinstance(a, Vec), isinstance(b, Vec)
        if isinstance(op, ast.Pow):
            if va and (_is_conc(b) or d.is_value(b)):
                self._noncov((ln, "element-wise power of a vector"))
                return Vec(d.pow(a.x, b), d.pow(a.y, b))
            if vb and not va:
                self._noncov((ln, "vector used as an exponent"))
                s_ = self.lift(a)
                return Vec(d.pow(s_, b.x), d.pow(s_, b.y))
            raise AnalysisError("line %d: unsupported vector power" % ln)
        if va and vb:
            if isinstance(op, (ast.Mult, ast.Div)):
                self._noncov((ln, "element-wise product/quotient of two vectors"))
            f = {ast.Add: d.add, ast.Sub: d.sub, ast.Mult: d.mul, ast.Div: d.div}.get(type(op))
            if f is None:
                raise AnalysisError("line %d: unsupported vector operator" % ln)
            return Vec(f(a.x, b.x), f(a.y, b.y))
        # scalar (broadcast) with vector
        if isinstance(op, (ast.Add, ast.Sub)):
            s = b if va else a
            if not (_is_conc(s) and s == 0):
                self._noncov((ln, "scalar added to a vector"))
        if va:
            s = self.lift(b)
            f = {ast.Add: d.add, ast.Sub: d.sub, ast.Mult: d.mul, ast.Div: d.div}.get(type(op))
            if f is None:
                raise AnalysisError("line %d: unsupported vector operator" % ln)
            return Vec(f(a.x, s), f(a.y, s))
        s = self.lift(a)
        if isinstance(op, ast.Div):
            self._noncov((ln, "division by a vector"))
        f = {ast.Add: d.add, ast.Sub: d.sub, ast.Mult: d.mul, ast.Div: d.div}.get(type(op))
        if f is None:
            raise AnalysisError("line %d: unsupported vector operator" % ln)
        return Vec(f(s, b.x), f(s, b.y))

    def e_Subscript(self, node, env, func, depth):
        cont = self.eval(node.value, env, func, depth)
        idx = self.eval_index(node.slice, env, func, depth)
        ln = node.lineno
        if hasattr(cont, "_fd_getitem"):
            return cont._fd_getitem(idx, self)
        if isinstance(cont, ParamDict):
            if not isinstance(idx, str):
                raise AnalysisError("non-constant dictionary key")
            return cont.get(idx)
        if isinstance(cont, dict):
            idx = self._freeze_key(idx)
            if idx in cont:
                return cont[idx]
            if hasattr(cont, "_fd_missing"):
                raise cont._fd_missing(idx, func, ln)
            raise AnalysisError("%s:%d key %r missing" % (func.qualname, ln, idx))
        if isinstance(cont, (list, tuple)):
            if isinstance(idx, int):
                try:
                    return cont[idx]
                except IndexError:
                    raise AnalysisError("%s:%d index %d out of range" % (func.qualname, ln, idx))
            if isinstance(idx, slice) and all(x is None or isinstance(x, int) for x in (idx.start, idx.stop, idx.step)):
                return cont[idx]
            raise AnalysisError("%s:%d unsupported list index" % (func.qualname, ln))
        if isinstance(cont, SArr):
            if isinstance(idx, slice):
                if idx.step is not None:
                    raise AnalysisError("%s:%d strided slice" % (func.qualname, ln))
                return self.stn.view(cont, idx.start, idx.stop)
            if isinstance(idx, KIdx):
                return self.stn.view(cont, idx.off, NLin.lift(idx.n) + idx.off)
            if isinstance(idx, (int, NLin)):
                return self.stn.elem(cont, idx)
            raise AnalysisError("%s:%d unsupported array index" % (func.qualname, ln))
        if isinstance(cont, Vec) and isinstance(idx, VecMask):
            e = AnalysisError("%s:%d vector field indexed with a boolean mask of its own shape" % (func.qualname, ln))
            e.violation = ("VEC-LAYOUT", func.qualname, "`%s` (line %d) indexes a (2, n) vector field with a (2, n) boolean mask `%s`: numpy returns the selected entries FLATTENED row by row (all selected x-components, then all selected y-components), so entry k of the result belongs to face k only for particular orderings of the faces -- not a point-wise selection" % (unparse(node)[:60], ln, idx.text[:40]),
                           "vec-mask", {"C02", "C01", "C03", "C10", "C13", "C15"})
            raise e
        if isinstance(cont, Vec):
            if isinstance(idx, tuple) and len(idx) == 2 and isinstance(idx[0], int) and _full_slice(idx[1]):
                self._noncov((ln, "component %d of a vector picked" % idx[0]))
                return cont.comps()[idx[0]]
            if isinstance(idx, tuple) and len(idx) == 2 and _full_slice(idx[0]) and isinstance(idx[1], ElemIndex):
                return cont
            if isinstance(idx, int):
                self._noncov((ln, "component %d of a vector picked" % idx))
                return cont.comps()[idx]
            raise AnalysisError("%s:%d unsupported vector index" % (func.qualname, ln))
        if self.dom.is_value(cont) or _is_conc(cont):
            if isinstance(idx, ElemIndex) or _full_slice(idx) or self.is_mask(idx):
                return cont          # x[mask]: the selected entries, position by position
            self.ev.neighbour_access.append((ln, unparse(node)))
            raise AnalysisError("%s:%d non point-wise access %s" % (func.qualname, ln, unparse(node)))
        raise AnalysisError("%s:%d unsupported subscript %s" % (func.qualname, ln, unparse(node)))

    def e_Lambda(self, node, env, func, depth):
        # Python semantics: free variables are looked up in the defining scope AT CALL TIME
        # (env captured by reference), default values are evaluated AT DEFINITION TIME
        names = [a.arg for a in node.args.args]
        dvals = {}
        for n, dflt in zip(names[len(names) - len(node.args.defaults):], node.args.defaults):
            dvals[n] = self.eval(dflt, env, func, depth)
        return ("lambda", node, env, func, dvals)

    def e_Call(self, node, env, func, depth):
        if isinstance(node.func, ast.Attribute) and node.func.attr == "__init__":
            ci = self.p.resolve_class_expr(node.func.value, func.module)
            is_super = _is_super_call(node.func.value)
            if is_super:
                ci = self._super_class(node.func.value, env, func, "__init__")
            if ci is not None:
                args = [self.eval(a, env, func, depth) for a in node.args]
                if is_super:
                    args = [env[func.params[0]]] + args
                kwargs = {k.arg: self.eval(k.value, env, func, depth) for k in node.keywords if k.arg}
                self.ev.base_init_calls.append((ci, args, kwargs))
                if self.follow_base_init:
                    init = self.p.resolve(ci, "__init__")
                    if init is not None:
                        return self.call_function(init, args, kwargs, depth + 1)
                return None
        f = self.eval(node.func, env, func, depth)
        args = [self.eval(a, env, func, depth) for a in node.args]
        kwargs = {k.arg: self.eval(k.value, env, func, depth) for k in node.keywords if k.arg}
        ln = node.lineno
        self._call_site = (node, env, depth)
        if isinstance(f, BoundMethod):
            return self.call_function(f.func, [f.selfobj] + args, kwargs, depth + 1)
        if hasattr(f, "node") and hasattr(f, "module"):   # FuncInfo (module-level helper)
            return self.call_function(f, args, kwargs, depth + 1)
        if isinstance(f, OpaqueFn):
            self.ev.opaque_calls.append(f.name)
            self._last_opaque_call = node
            if any(isinstance(a, SArr) for a in args):
                ops = [a if isinstance(a, SArr) else self.lift(a) for a in args]
                return self.stn.zip_map(lambda *vals: self.dom.opaque(f.name, list(vals), f.positive), *ops)
            return self.dom.opaque(f.name, [self.lift(a) if self.is_num(a) else a for a in args], f.positive)
        if isinstance(f, tuple) and f and f[0] == "method":
            _, obj, name = f
            if name == "copy":
                return obj.copy() if isinstance(obj, SArr) else obj
            if name in ("sum", "mean") and isinstance(obj, SArr) and not args and not kwargs and self.stn is not None:
                cnt = getattr(self, "count_rf", None)
                s_ = self.stn.summation(obj, cnt)
                if name == "sum":
                    return s_
                if cnt is None:
                    raise AnalysisError("%s:%d mean of an array of unknown length" % (func.qualname, ln))
                return self.dom.div(s_, cnt)
            if name in ("min", "max") and isinstance(obj, SArr) and not args and not kwargs:
                return self._extremum(obj, name)
            if name == "astype" and len(args) == 1:
                # value unchanged in real arithmetic; the conversion is recorded for the dtype rules
                t = args[0]
                self.ev.astype.append((func.qualname, ln, getattr(t, "name", repr(t)), "vector" if isinstance(obj, Vec) else "value"))
                return obj
            if name == "append" and isinstance(obj, list):
                obj.append(args[0])
                return None
            if name == "keys" and isinstance(obj, ParamDict):
                return sorted(obj.present)
            if name == "copy" and isinstance(obj, ParamDict) and not args:
                return _pd_copy({}, present=set(obj.present) | set(obj.entries), make=obj.get)
            if name == "pop" and isinstance(obj, ParamDict) and args and isinstance(args[0], str) and getattr(obj, "_is_copy", False):
                # on a COPY of the parameter dictionary (dict(param), param.copy(), {**param}): the entry, or the default
                if args[0] in obj.present or args[0] in obj.entries:
                    v = obj.get(args[0])
                    obj.present.discard(args[0])
                    obj.entries.pop(args[0], None)
                    obj._popped = getattr(obj, "_popped", set()) | {args[0]}
                    return v
                if len(args) > 1:
                    return args[1]
                raise AnalysisError("%s:%d parameter %r not provided" % (func.qualname, ln, args[0]))
            if name == "get" and isinstance(obj, ParamDict):
                if args[0] in obj.present or (args[0] in obj.entries):
                    return obj.get(args[0])
                return args[1] if len(args) > 1 else None
            if isinstance(obj, dict):
                if name == "get":
                    return obj.get(args[0], args[1] if len(args) > 1 else None)
                if name == "keys":
                    return list(obj.keys())
                if name == "values":
                    return list(obj.values())
                if name == "items":
                    return [[k, v] for k, v in obj.items()]
                if type(obj) is dict:
                    # a dictionary the code itself built: the mutating methods act on it
                    pairs = lambda x: isinstance(x, (list, tuple)) and all(isinstance(kv, (list, tuple)) and len(kv) == 2 for kv in x)
                    if name == "update" and len(args) <= 1 and (not args or isinstance(args[0], dict) or pairs(args[0])):
                        if args:
                            src = args[0].items() if isinstance(args[0], dict) else args[0]
                            for k_, v_ in list(src):
                                obj[self._freeze_key(k_)] = v_
                        obj.update(kwargs)
                        return None
                    if name == "setdefault" and len(args) == 2:
                        return obj.setdefault(self._freeze_key(args[0]), args[1])
                    if name == "pop" and args and self._freeze_key(args[0]) in obj:
                        return obj.pop(self._freeze_key(args[0]))
                    if name == "copy" and not args:
                        return dict(obj)
            raise AnalysisError("%s:%d unsupported method .%s" % (func.qualname, ln, name))
        if isinstance(f, tuple) and f and f[0] == "lambda":
            _, lam, lenv, lfunc, dvals = f
            if id(lam) in self._active_lambdas:
                raise SelfRecursion("%s:%d lambda defined at line %d calls itself" % (func.qualname, ln, lam.lineno))
            e2 = _Overlay(lenv)
            names = [a.arg for a in lam.args.args]
            for n in names:
                if n in dvals:
                    e2[n] = dvals[n]
            for n, a in zip(names, args):
                e2[n] = a
            for n in names:
                if n not in e2.local:
                    raise AnalysisError("%s:%d missing lambda argument %s" % (func.qualname, ln, n))
            self._active_lambdas.append(id(lam))
            try:
                return self._run_lambda(lam, e2, lfunc, depth + 1)
            finally:
                self._active_lambdas.pop()
        if isinstance(f, ModuleRef):
            return self.call_builtin(f.name, args, kwargs, node, func)
        if callable(f):
            if getattr(f, "_elementwise", False) and any(isinstance(a, SArr) for a in args):
                ops = [a if isinstance(a, SArr) else self.lift(a) for a in args]
                return self.stn.zip_map(lambda *vals: f(*vals), *ops)
            return f(*args, **kwargs)
        raise AnalysisError("%s:%d unsupported call %s" % (func.qualname, ln, unparse(node.func)))

    def _path_cond(self):
        pc = None
        for c, taken in self._cond_stack:
            cc = c if taken else self.dom.cnot(c)
            pc = cc if pc is None else self.dom.cand(pc, cc)
        return pc

    def call_builtin(self, name, args, kwargs, node, func):
        """numpy's out= convention: the result is WRITTEN INTO the out array (in place, under the conditions of the
        enclosing data-dependent branches) and that array is returned"""
        if "where" in kwargs and name.startswith("np") and ("out" not in kwargs or kwargs["out"] is None) and name.split(".")[-1] not in ("copyto", "where", "sum", "mean", "any", "all", "min", "max"):
            raise AnalysisError("%s:%d ufunc with where= and no out=: the entries not selected are uninitialised memory" % (func.qualname, node.lineno))
        if "out" in kwargs and kwargs["out"] is not None and name.startswith("np"):
            kwargs = dict(kwargs)
            out = kwargs.pop("out")
            sel = kwargs.pop("where", None)
            r = self._call_builtin(name, args, kwargs, node, func)
            pc = self._path_cond()
            site0 = getattr(self, "_call_site", None)
            outnode = next((k.value for k in node.keywords if k.arg == "out"), None) if (site0 is not None and site0[0] is node) else None
            if isinstance(out, SArr) and isinstance(outnode, ast.Subscript) and self.stn is not None:
                # out=g[1:-1]: a VIEW of an array -- the result is stored into that part of g (the value of the subscript expression
                # is a copy here, so the store goes through the subscript itself); where=mask keeps the old entries elsewhere
                rr = r if isinstance(r, SArr) else SArr(out.length, [(0, out.length, self.lift(r))])
                cond = pc
                if sel is not None and sel is not True:
                    if isinstance(sel, SArr):
                        new = self.stn.zip_map(lambda m_, n_, o_: self.dom.where(m_ if pc is None else self.dom.cand(pc, m_), n_, o_), sel, rr, out)
                        cond = "done"
                    elif self.is_mask(sel):
                        cond = sel if pc is None else self.dom.cand(pc, sel)
                    else:
                        raise AnalysisError("%s:%d where= is not a comparison the analysis follows" % (func.qualname, node.lineno))
                if cond != "done":
                    new = rr if cond is None else self.stn.zip_map(lambda n_, o_: self.dom.where(cond, n_, o_), rr, out)
                tgt = ast.copy_location(ast.Subscript(value=outnode.value, slice=outnode.slice, ctx=ast.Store()), outnode)
                self.assign(tgt, new, site0[1], func, site0[2])
                return new
            if sel is not None and sel is not True:
                # where=mask: entries where the mask is False KEEP what `out` held (not the value of the operation)
                if isinstance(sel, SArr):
                    raise AnalysisError("%s:%d where= with an array mask and an out= that is not a subscript of an array" % (func.qualname, node.lineno))
                if not self.is_mask(sel) and not isinstance(sel, bool):
                    raise AnalysisError("%s:%d where= is not a comparison the analysis follows" % (func.qualname, node.lineno))
                ts = self.truth(sel)
                if ts is False:
                    return out
                if ts is None:
                    pc = sel if pc is None else self.dom.cand(pc, sel)
            if isinstance(out, SArr) and self.stn is not None and (isinstance(r, SArr) or self.is_num(r)):
                rr = r if isinstance(r, SArr) else SArr(out.length, [(0, out.length, self.lift(r))])
                new = rr if pc is None else self.stn.zip_map(lambda n_, o_: self.dom.where(pc, n_, o_), rr, out)
                self.stn.assign_slice(out, None, None, new)
                return out
            if isinstance(out, Vec) and isinstance(r, Vec):
                out.x = r.x if pc is None else self.dom.where(pc, r.x, out.x)
                out.y = r.y if pc is None else self.dom.where(pc, r.y, out.y)
                return out
            # out= a plain LOCAL NAME holding a point-wise array value: the name now denotes the result (other names bound to
            # the same array are not followed: refused when the name was bound from another name or an attribute)
            site = getattr(self, "_call_site", None)
            if isinstance(out, float) and pc is not None and type(self.dom).__name__ == "UnitDomain":
                pc = None           # +inf carries every unit (like 0): for the dimensions the entry is the operation's result
            if site is not None and site[0] is node and (self.dom.is_value(out) or _is_conc(out) or (isinstance(out, float) and pc is None)) and self.is_num(r) and not isinstance(r, SArr):
                kw = [k.value for k in node.keywords if k.arg == "out"]
                if len(kw) == 1 and isinstance(kw[0], ast.Name) and kw[0].id in site[1] and self._own_local(kw[0].id, func, node.lineno):
                    new = self.lift(r) if pc is None else self.dom.where(pc, self.lift(r), self.lift(out))
                    site[1][kw[0].id] = new
                    return new
            raise AnalysisError("%s:%d out= into a value the analysis cannot update in place" % (func.qualname, node.lineno))
        return self._call_builtin(name, args, kwargs, node, func)

    def _own_local(self, name, func, before_line):
        """the local `name` holds an array of its own: every assignment to it in the function is the result of an operation or a
        call (a new array), never another name, an attribute, a subscript or a parameter"""
        if name in func.params:
            return False
        ok = False
        for n in ast.walk(func.node):
            if isinstance(n, ast.Assign):
                for t in n.targets:
                    for e in (t.elts if isinstance(t, (ast.Tuple, ast.List)) else [t]):
                        if isinstance(e, ast.Name) and e.id == name:
                            if isinstance(t, (ast.Tuple, ast.List)) or not isinstance(n.value, (ast.BinOp, ast.UnaryOp, ast.Call)):
                                return False
                            if isinstance(n.value, ast.Call) and isinstance(n.value.func, ast.Attribute) and n.value.func.attr in ("asarray", "asanyarray", "reshape", "ravel", "view", "squeeze", "transpose", "atleast_1d"):
                                return False
                            ok = True
            elif isinstance(n, (ast.For, ast.comprehension)) and any(isinstance(x, ast.Name) and x.id == name for x in ast.walk(n.target)):
                return False
        return ok

    def _call_builtin(self, name, args, kwargs, node, func):
        d = self.dom
        ln = node.lineno
        base = name.split(".")[-1] if not name.startswith("builtin:") else name[8:]
        if name.startswith("builtin:"):
            args = [a.items if isinstance(a, OneShot) else a for a in args]       # consumed here, at once
            if base == "abs":
                return self.unary("abs", args[0], ln)
            if base == "len":
                if isinstance(args[0], (list, tuple)):
                    return len(args[0])
                if isinstance(args[0], SArr):
                    return args[0].length
                return LenOf(args[0])
            if base == "range":
                if self.range_hook is not None and any(self.dom.is_value(a) for a in args):
                    return ("rangehook", args)
                if len(args) == 1 and isinstance(args[0], LenOf):
                    return RangeLen(args[0])
                if len(args) == 1 and isinstance(args[0], NLin) and not args[0].is_const():
                    return RangeSym(args[0])
                if all(isinstance(a, int) or (isinstance(a, Fraction) and a.denominator == 1) for a in args):
                    return range(*[int(a) for a in args])
                raise AnalysisError("%s:%d unsupported range()" % (func.qualname, ln))
            if base == "enumerate" and isinstance(args[0], (list, tuple)):
                return [[i, x] for i, x in enumerate(args[0])]
            if base == "zip" and all(isinstance(a, (list, tuple, range)) for a in args):
                return [list(t) for t in zip(*args)]
            # iteration over the ENTRIES of point-wise arrays: one generic entry (the same position in every array)
            pw = lambda a: (self.dom.is_value(a) or _is_conc(a)) and not isinstance(a, (SArr, Vec))
            if base == "zip" and args and all(pw(a) for a in args):
                return ElemIter([self.lift(a) for a in args], False)
            if base == "enumerate" and len(args) == 1 and (isinstance(args[0], ElemIter) or pw(args[0])):
                inner = args[0] if isinstance(args[0], ElemIter) else ElemIter([self.lift(args[0])], False, single=True)
                return ElemIter(inner.vals, True, single=inner.single)
            if base in ("min", "max") and len(args) == 2:
                return self.binary("minimum" if base == "min" else "maximum", args[0], args[1], ln)
            if base == "float":
                return args[0]
            if base == "slice":
                if "builtin:slice" in self.np_hooks:
                    return self.np_hooks["builtin:slice"](args, kwargs)
                a3 = list(args) + [None] * (3 - len(args))
                return slice(None, a3[0], None) if len(args) == 1 else slice(a3[0], a3[1], a3[2])
            if base in ("int", "round", "list") and ("builtin:" + base) in self.np_hooks:
                return self.np_hooks["builtin:" + base](args, kwargs)
            if base == "list" and isinstance(args[0], (list, tuple)):
                return list(args[0])
            if base == "tuple" and isinstance(args[0], (list, tuple)):
                return tuple(args[0])
            if base in ("any", "all") and len(args) == 1 and isinstance(args[0], (list, tuple)) and all(x is None or isinstance(x, (bool, int, str, OpaqueFn)) or callable(x) for x in args[0]):
                # Python's any / all over concrete entries (indices, names, callables or None): TRUTHINESS -- any([0]) is False
                ts = [not (x is None or x is False or (isinstance(x, int) and x == 0) or x == "") for x in args[0]]
                return any(ts) if base == "any" else all(ts)
            if base == "bool" and len(args) == 1:
                t = self.truth(args[0])
                if t is None:
                    raise AnalysisError("%s:%d bool() of a value the analysis does not decide" % (func.qualname, ln))
                return bool(t)
            if base == "type" and len(args) == 1:
                # used as a component of a key / in an identity test: one tag per kind of abstract value
                a = args[0]
                return "<type %s>" % ("int" if isinstance(a, int) and not isinstance(a, bool) else "number" if (self.dom.is_value(a) or _is_conc(a)) else type(a).__name__)
            if base == "dict" and not args:
                return dict(kwargs)
            if base == "dict" and len(args) == 1 and isinstance(args[0], dict):
                return dict(args[0], **kwargs)
            if base == "dict" and len(args) == 1 and isinstance(args[0], ParamDict):
                # a copy of the parameter dictionary (with overrides): the same entries, another object
                src, over = args[0], dict(kwargs)
                return _pd_copy({}, present=set(src.present) | set(src.entries) | set(over),
                                 make=lambda key: over[key] if key in over else src.get(key))
            if base == "dict" and len(args) == 1 and isinstance(args[0], (list, tuple)) and all(isinstance(kv, (list, tuple)) and len(kv) == 2 and isinstance(kv[0], (str, int)) for kv in args[0]):
                return dict([(kv[0], kv[1]) for kv in args[0]], **kwargs)
            if base in ("getattr", "hasattr", "setattr") and len(args) >= 2 and isinstance(args[1], str) and isinstance(args[0], (SelfObj, ObjStub)):
                fake = ast.copy_location(ast.Attribute(value=node.args[0], attr=args[1], ctx=ast.Load()), node)
                if base == "setattr":
                    if not isinstance(args[0], SelfObj) or len(args) != 3:
                        raise AnalysisError("%s:%d unsupported setattr" % (func.qualname, ln))
                    v = args[2] if self.on_setattr is None else self.on_setattr(args[0], args[1], args[2])
                    args[0].attrs[args[1]] = v
                    return None
                try:
                    return self._attr_of(args[0], args[1], func, node, 0) if base == "getattr" else (self._attr_of(args[0], args[1], func, node, 0) is not None or True)
                except AnalysisError:
                    if base == "hasattr":
                        return False
                    if len(args) == 3:
                        return args[2]
                    raise
            raise AnalysisError("%s:%d unsupported builtin %s" % (func.qualname, ln, base))
        if name in ("copy.copy", "copy.deepcopy") and len(args) == 1 and not kwargs:
            # a copy: the same entries / values in another object (abstract values are immutable here, so shallow and deep agree
            # except for containers of containers, copied one level deeper by deepcopy)
            import copy as _copy
            a = args[0]
            if isinstance(a, ParamDict):
                return _pd_copy({}, present=set(a.present) | set(a.entries), make=a.get)
            if isinstance(a, (dict, list)):
                c = _copy.copy(a)
                if name == "copy.deepcopy":
                    if isinstance(c, dict):
                        for k_ in list(c):
                            if isinstance(c[k_], (dict, list)):
                                c[k_] = _copy.copy(c[k_])
                    else:
                        c[:] = [_copy.copy(x) if isinstance(x, (dict, list)) else x for x in c]
                return c
            if isinstance(a, SArr):
                return a.copy()
            if isinstance(a, Vec):
                return Vec(a.x, a.y)
            if self.dom.is_value(a) or _is_conc(a) or a is None or isinstance(a, str):
                return a
            raise AnalysisError("%s:%d %s of a %s" % (func.qualname, ln, name, type(a).__name__))
        if name == "types.MappingProxyType" and len(args) == 1 and isinstance(args[0], dict):
            return args[0]              # a read-only view: the same lookups
        if not name.startswith("np"):
            if any(name.startswith(m) for m in self.opaque_modules):
                if getattr(self, "ext_value", None) is not None:
                    return self.ext_value(name, args, kwargs)        # caller-supplied abstraction of the external function
                return ExtCall(name, args, kwargs)
            raise AnalysisError("%s:%d call into unknown module %s" % (func.qualname, ln, name))
        if base in self.np_hooks:
            return self.np_hooks[base](args, kwargs)
        if base in ("isclose", "allclose", "array_equal") and len(args) >= 2 and self.cond_policy is not None:
            # tolerance comparison of two abstract values: true if they are the same value; otherwise
            # an *opaque condition* -- true for some inputs, false for others.  The caller enumerates
            # both outcomes (cond_policy) and every clause must hold on every path.
            a, b = args[0], args[1]
            try:
                if self.dom.is_value(self.lift(a)) and self.dom.is_value(self.lift(b)) and hasattr(self.dom, "alg") and self.dom.alg.equal(self.lift(a), self.lift(b)):
                    return True
            except Exception:
                pass
            k = len(self.cond_log)
            c = self.cond_policy[k] if k < len(self.cond_policy) else True
            self.cond_log.append("%s:%d `%s` taken as %s" % (func.qualname, ln, unparse(node)[:60], c))
            return c
        if base == "roll" and len(args) >= 2 and isinstance(args[0], SArr) and isinstance(args[1], int) and self.stn is not None and kwargs.get("axis") in (None, 0, -1) and len(args) == 2:
            # np.roll(a, k): entry j is a[j - k], the first k entries come from the END of the array (periodic wrap, whatever the
            # boundary conditions are)
            a, k = args[0], args[1]
            if k == 0:
                return a.copy()
            n = a.length
            out = SArr(n, [])
            if abs(k) > 4:
                raise AnalysisError("%s:%d np.roll by more than 4 entries" % (func.qualname, ln))
            if k > 0:
                self.stn.assign_slice(out, k, None, self.stn.view(a, 0, n - k))
                for j in range(k):
                    self.stn.assign_elem(out, j, self.stn.elem(a, n - k + j))
            else:
                self.stn.assign_slice(out, 0, n + k, self.stn.view(a, -k, None))
                for j in range(-k):
                    self.stn.assign_elem(out, n + k + j, self.stn.elem(a, j))
            return out
        if base == "isclose" and len(args) >= 2 and self.cond_policy is None and not any(isinstance(x, (SArr, Vec)) for x in args[:2]):
            # numpy's definition: |a - b| <= atol + rtol*|b| with the DEFAULTS rtol = 1e-5, atol = 1e-8 -- the absolute part is a
            # literal threshold in the units of a and b (np.isclose(x, 0.) is |x| <= 1e-8)
            a, b = self.lift(args[0]), self.lift(args[1])
            rtol = args[2] if len(args) > 2 else kwargs.get("rtol", Fraction(1, 10 ** 5))
            atol = args[3] if len(args) > 3 else kwargs.get("atol", Fraction(1, 10 ** 8))
            lhs = d.func1("abs", d.sub(a, b))
            rhs = d.mul(self.lift(rtol), d.func1("abs", b))
            if not (_is_conc(atol) and atol == 0):
                rhs = d.add(self.lift(atol), rhs)
            return self._mask(d.cmp("<=", lhs, rhs))
        if base in ("min", "max", "amin", "amax") and isinstance(args[0] if args else None, (list, tuple)) and len(args[0]) >= 2 and base not in self.np_hooks \
                and ((len(args) == 2 and args[1] == 0 and not kwargs) or (len(args) == 1 and set(kwargs) == {"axis"} and kwargs["axis"] == 0)) \
                and all(self.dom.is_value(x) or _is_conc(x) for x in args[0]):
            # np.min((a, b), 0): the second POSITIONAL argument is the axis -- the entry-wise minimum of a and b (0 is not a candidate)
            r = args[0][0]
            for x in args[0][1:]:
                r = self.binary("minimum" if "min" in base else "maximum", r, x, ln)
            return r
        if base in ("min", "max", "amin", "amax") and len(args) == 1 and isinstance(args[0], (list, tuple)) and len(args[0]) >= 2 and "axis" not in kwargs \
                and any(self.dom.is_value(x) and not _is_conc(x) for x in args[0]):
            e = AnalysisError("%s:%d np.%s of several arrays without axis" % (func.qualname, ln, base))
            e.violation = ("POINTWISE-REDUCE", func.qualname, "`%s` (line %d): np.%s of a tuple of arrays WITHOUT axis=0 is the %s over ALL entries of all of them -- one number for the whole call (np.%s((a, b), axis=0) or np.%simum(a, b) is the entry-wise one): every face / cell gets the global extremum" % (unparse(node)[:60], ln, base, "minimum" if "min" in base else "maximum", base, "min" if "min" in base else "max"),
                           "global-extremum", {"C01", "C02", "C03", "C10", "C12", "C13", "C14", "C15", "C16", "C17", "C18", "C11", "C04"})
            raise e
        if base in ("all", "any") and len(args) == 1 and not kwargs and hasattr(d, "unknown_cond"):
            # reduction of a condition over an array of which the analysed value is one entry:
            # decided only when this entry forces it, otherwise an unknown condition (both branches)
            t = self.truth(args[0])
            if (base == "all" and t is False) or (base == "any" and t is True):
                return t
            return d.unknown_cond()
        if base in NP_UNARY:
            return self.unary(base, args[0], ln)
        if base == "negative" and len(args) == 1:
            r = self.neg(args[0])
            out = kwargs.get("out")
            if out is not None:
                if out is args[0] and isinstance(out, Vec) and isinstance(r, Vec):
                    out.x, out.y = r.x, r.y          # in place on the vector object
                    return out
                raise AnalysisError("%s:%d np.negative(..., out=) on an unsupported operand" % (func.qualname, ln))
            return r
        if base in ("minimum", "maximum"):
            return self.binary(base, args[0], args[1], ln)
        if base in ("vsplit", "split", "array_split") and len(args) == 2 and isinstance(args[0], Vec) and args[1] == 2 and kwargs.get("axis", 0) == 0:
            return [Row2D(args[0].x, "np.%s" % base), Row2D(args[0].y, "np.%s" % base)]
        if base == "shape" and len(args) == 1 and "shape" not in self.np_hooks and (self.dom.is_value(args[0]) or isinstance(args[0], Vec) or _is_conc(args[0])):
            return ("shape-of", args[0])
        if base == "resize" and len(args) == 2 and isinstance(args[1], tuple) and args[1] and args[1][0] == "shape-of":
            q, dref = args[0], args[1][1]
            if isinstance(q, Vec) or isinstance(dref, Vec):
                e = AnalysisError("%s:%d np.resize to the shape of a vector field" % (func.qualname, ln))
                e.violation = ("VEC-LAYOUT", func.qualname, "`%s` (line %d): np.resize FLATTENS its argument and repeats the values cyclically until the new shape is filled -- it does not broadcast: a velocity given in the compact column form [[u], [v]] resized to (2, nfaces) becomes u, v, u, v, ... along the first row (np.broadcast_to / `q + 0*d` broadcast)" % (unparse(node)[:50], ln),
                               "resize-not-broadcast", {"C03", "C16", "C15", "C13", "C01"})
                raise e
            return q            # a scalar (or an array of that very shape) resized to the shape of a scalar field: the same values
        if base == "put" and len(args) == 3 and hasattr(args[0], "_fd_setitem"):
            # np.put(a, ind, v) stores into the FLATTENED array: a.flat[ind] = v
            if getattr(args[0], "vec", False):
                e = AnalysisError("%s:%d np.put into a (2, n) vector array" % (func.qualname, ln))
                e.violation = ("VEC-LAYOUT", func.qualname, "`%s` (line %d): np.put indexes the FLATTENED array -- for a (2, n) vector array the face indices address the first row (the x components) only, and the values beyond the number of indices are silently dropped: the y components are never written (they keep what the array held before)" % (unparse(node)[:50], ln),
                               "put-flat-vector", {"C16", "C15", "C01", "C03", "C11", "C13", "C14"})
                raise e
            args[0]._fd_setitem(args[1], args[2], self)
            return None
        if base in ("place", "put", "putmask") and len(args) == 3:
            vals = args[2]
            if base in ("place", "putmask") and _is_conc(vals) and self.is_mask(args[1]):
                site = getattr(self, "_call_site", None)
                if site is not None and site[0] is node and isinstance(node.args[0], ast.Name) and node.args[0].id in site[1] and (self.dom.is_value(args[0]) or _is_conc(args[0])):
                    site[1][node.args[0].id] = self.dom.where(args[1], self.lift(vals), self.lift(args[0]))      # arr[mask] = constant
                    return None
            e = AnalysisError("%s:%d np.%s with an array of values" % (func.qualname, ln, base))
            if base == "place":
                e.violation = ("POINTWISE-SCATTER", func.qualname, "`%s` (line %d): np.place puts the FIRST N entries of the values array, in order, at the N positions where the mask holds -- not the entries at those positions (that is `arr[mask] = vals[mask]` / np.where / np.copyto(..., where=)): the value stored for an entry depends on how many masked entries precede it, i.e. on the other faces / cells" % (unparse(node)[:60], ln),
                               "np-place", {"C01", "C02", "C03", "C10", "C12", "C13", "C14", "C15", "C16", "C17", "C18", "C11"})
            raise e
        if base in ("result_type", "promote_types", "find_common_type"):
            return "<dtype of a value>"
        if base == "logical_not" and len(args) == 1 and (self.is_mask(args[0]) or isinstance(args[0], bool)):
            return (not args[0]) if isinstance(args[0], bool) else self._mask(d.cnot(args[0]))
        if base == "copyto" and len(args) == 2 and set(kwargs) <= {"where"}:
            # np.copyto(dst, src, where=mask): dst[mask] = src[mask] -- into a local array of the function's own
            site = getattr(self, "_call_site", None)
            dst, src = args
            sel = kwargs.get("where", True)
            if site is not None and site[0] is node and isinstance(node.args[0], ast.Name) and node.args[0].id in site[1] and self._own_local(node.args[0].id, func, ln) \
                    and (self.dom.is_value(dst) or _is_conc(dst)) and self.is_num(src) and not isinstance(src, SArr) and (sel is True or self.is_mask(sel)):
                pc = self._path_cond()
                cond = None if sel is True else sel
                if pc is not None:
                    cond = pc if cond is None else d.cand(pc, cond)
                site[1][node.args[0].id] = self.lift(src) if cond is None else d.where(cond, self.lift(src), self.lift(dst))
                return None
            raise AnalysisError("%s:%d np.copyto into a value the analysis cannot update in place" % (func.qualname, ln))
        if base == "full" and len(args) == 2 and "full" not in self.np_hooks and (_is_conc(args[1]) or isinstance(args[1], float) or self.dom.is_value(args[1])):
            return args[1]          # one value in every entry (point-wise: the entry)
        if base == "clip" and len(args) == 3 and not kwargs:
            # numpy's definition: minimum(a_max, maximum(a, a_min)) -- with a_min > a_max the result is a_max
            lo, hi = args[1], args[2]
            r = args[0]
            if lo is not None:
                r = self.binary("maximum", r, lo, ln)
            if hi is not None:
                r = self.binary("minimum", r, hi, ln)
            return r
        if base in ("add", "subtract", "multiply", "divide", "true_divide") and len(args) == 2:
            op = {"add": ast.Add(), "subtract": ast.Sub(), "multiply": ast.Mult(), "divide": ast.Div(), "true_divide": ast.Div()}[base]
            return self.binop(op, args[0], args[1], ln)
        if base == "where" and any(isinstance(x, SArr) for x in args):
            ops = [x if isinstance(x, SArr) else self.lift(x) for x in args]
            return self.stn.zip_map(lambda c, a, b: self.merge(c, a, b), *ops)
        if base == "where":
            c, a, b = args
            t = self.truth(c) if not d.is_value(c) else d.truth(c)
            if t is True:
                return a
            if t is False:
                return b
            self.ev.where_conditions.append((ln, c))
            return self.merge(c, a, b)
        if base in ("sum", "dot", "average", "mean") and self.stn is not None and args and any(isinstance(a, SArr) for a in args):
            # reductions over the cell index as symbolic sums (linear; see Stn.summation)
            cnt = getattr(self, "count_rf", None)
            if base == "sum" and len(args) == 1 and not kwargs:
                return self.stn.summation(args[0], cnt)
            if base == "dot" and len(args) == 2:
                return self.stn.summation(self.binop(ast.Mult(), args[0], args[1], node), cnt)
            if base in ("average", "mean") and len(args) == 1:
                w = kwargs.get("weights") if base == "average" else None
                if set(kwargs) - {"weights"}:
                    raise AnalysisError("%s:%d np.%s with unsupported keywords" % (func.qualname, ln, base))
                if w is None:
                    if cnt is None:
                        raise AnalysisError("%s:%d unweighted mean needs the number of entries" % (func.qualname, ln))
                    return d.div(self.stn.summation(args[0], cnt), cnt)
                return d.div(self.stn.summation(self.binop(ast.Mult(), args[0], w, node), cnt), self.stn.summation(w, cnt))
            raise AnalysisError("%s:%d unsupported reduction np.%s" % (func.qualname, ln, base))
        if base in ("gradient", "diff") and len(args) == 1 and isinstance(args[0], SArr) and self.stn is not None:
            # neighbour differences of a piecewise array (interior value shifted; one-sided at the ends)
            a = args[0]
            if len(a.segs) != 1:
                raise AnalysisError("%s:%d np.%s of a piecewise array" % (func.qualname, ln, base))
            v = a.segs[0][2]
            up, dn = self.stn.shift(v, 1), self.stn.shift(v, -1)
            L = a.length
            if base == "diff":
                return SArr(L - 1, [(0, L - 1, d.sub(up, v))])
            return SArr(L, [(0, 1, d.sub(up, v)), (1, L - 1, d.div(d.sub(up, dn), d.const(2))), (L - 1, L, d.sub(v, dn))])
        if base == "full" and len(args) == 2 and isinstance(args[0], NLin) and self.stn is not None:
            return SArr(args[0], [(0, args[0], self.lift(args[1]))])
        if base == "zeros" and args and isinstance(args[0], NLin) and self.stn is not None:
            return SArr(args[0], [(0, args[0], self.dom.const(0))])
        if base == "arange" and len(args) == 1 and isinstance(args[0], NLin):
            return RangeSym(args[0])
        if base == "zeros" and args and isinstance(args[0], (list, tuple)) and len(args[0]) == 2 and args[0][0] == 2:
            return Vec(self.dom.const(0), self.dom.const(0))
        if base in ("zeros", "zeros_like"):
            return 0
        if base in ("asarray", "asanyarray", "ascontiguousarray") and len(args) == 1 and (self.is_num(args[0]) or isinstance(args[0], Vec)):
            return args[0]
        if base == "reshape" and args and isinstance(args[0], Vec):
            shp = args[1] if len(args) > 1 else None
            if isinstance(shp, (list, tuple)) and len(shp) == 2 and shp[0] == 2 and shp[1] in (-1,):
                return args[0]
            e = AnalysisError("%s:%d reshape of a vector field to %r" % (func.qualname, ln, shp))
            e.violation = ("VEC-LAYOUT", func.qualname, "np.reshape of a (2, n) vector field to %r (line %d) re-reads the memory row by row: it pairs (u0,u1), (u2,u3) ... instead of (u_i, v_i) -- for more than one entry the components of different faces are mixed (a single pair [u, v] happens to come out right)" % (tuple(shp) if isinstance(shp, (list, tuple)) else shp, ln),
                           "vec-reshape", {"C03", "C13", "C15", "C16"})
            raise e
        if base in ("max", "amax", "min", "amin") and len(args) == 1 and isinstance(args[0], SArr) and not kwargs:
            return self._extremum(args[0], "max" if base in ("max", "amax") else "min")
        if base in ("max", "amax", "min", "amin") and args and isinstance(args[0], Vec) and kwargs.get("axis", None) == 0:
            # over the COMPONENTS of a vector field (axis 0), entry by entry: point-wise in the face / cell index
            self._noncov((ln, "extremum over the components of a vector"))
            return self.binary("maximum" if base in ("max", "amax") else "minimum", args[0].x, args[0].y, ln)
        if base == "sum":
            if isinstance(args[0], Vec) and kwargs.get("axis", None) == 0:
                return d.add(args[0].x, args[0].y)
            raise AnalysisError("%s:%d reduction np.sum in a kernel" % (func.qualname, ln))
        if base == "einsum":
            if args and args[0] == "ij,ij->j" and isinstance(args[1], Vec) and isinstance(args[2], Vec):
                a, b = args[1], args[2]
                return d.add(d.mul(a.x, b.x), d.mul(a.y, b.y))
            raise AnalysisError("%s:%d unsupported einsum" % (func.qualname, ln))
        if base == "full_like":
            v = args[1]
            if isinstance(args[0], Vec) and isinstance(v, list) and len(v) == 2 and all(isinstance(r, list) and len(r) == 1 for r in v):
                return Vec(self.lift(v[0][0]), self.lift(v[1][0]))
            raise AnalysisError("%s:%d unsupported full_like" % (func.qualname, ln))
        if base == "vstack":
            v = args[0]
            if isinstance(v, list) and len(v) == 2:
                return Vec(self.lift(v[0]), self.lift(v[1]))
        raise AnalysisError("%s:%d unsupported numpy function %s" % (func.qualname, ln, base))

    def unary(self, fn, v, ln):
        d = self.dom
        if fn == "absolute":
            fn = "abs"
        if isinstance(v, SArr):
            return self.stn.zip_map(lambda x: self.unary(fn, x, ln), v)
        if isinstance(v, Vec):
            self._noncov((ln, "element-wise %s of a vector" % fn))
            return Vec(d.func1(fn, v.x), d.func1(fn, v.y))
        if fn == "abs" and _is_conc(v):
            return abs(v)
        if fn == "square":
            v = self.lift(v)
            return d.mul(v, v)
        return d.func1(fn, self.lift(v))

    def binary(self, fn, a, b, ln):
        if isinstance(a, SArr) or isinstance(b, SArr):
            x = a if isinstance(a, SArr) else self.lift(a)
            y = b if isinstance(b, SArr) else self.lift(b)
            return self.stn.zip_map(lambda u, v: self.binary(fn, u, v, ln), x, y)
        if _is_conc(a) and _is_conc(b):
            return min(a, b) if fn == "minimum" else max(a, b)
        if isinstance(a, Vec) or isinstance(b, Vec):
            raise AnalysisError("line %d: min/max of vectors" % ln)
        return self.dom.func2(fn, self.lift(a), self.lift(b))


def _required_keys(test):
    """('k1', 'k2'), dict expression  for tests of the form  'k' not in D  [or 'k2' not in D ...]  /  not ('k' in D [and ...])"""
    def one(t):
        if isinstance(t, ast.Compare) and len(t.ops) == 1 and isinstance(t.ops[0], ast.NotIn) and isinstance(t.left, ast.Constant) and isinstance(t.left.value, str):
            return [t.left.value], t.comparators[0]
        if isinstance(t, ast.Compare) and len(t.ops) == 1 and isinstance(t.ops[0], ast.NotIn) and isinstance(t.left, ast.Name):
            return [t.left], t.comparators[0]          # a loop variable over the required names: evaluated by the caller
        return None
    r = one(test)
    if r is not None:
        return r
    if isinstance(test, ast.BoolOp) and isinstance(test.op, ast.Or):
        parts = [one(v) for v in test.values]
        if all(p is not None for p in parts) and len({ast.dump(p[1]) for p in parts}) == 1:
            return [k for p in parts for k in p[0]], parts[0][1]
    return None


def _is_super_call(n):
    return isinstance(n, ast.Call) and isinstance(n.func, ast.Name) and n.func.id == "super"


def _is_conc(v):
    return isinstance(v, (int, Fraction)) and not isinstance(v, bool)


def _full_slice(s):
    return isinstance(s, slice) and s.start is None and s.stop is None and s.step is None


def _as_load(node):
    n = ast.parse(ast.unparse(node), mode="eval").body
    ast.copy_location(n, node)
    for x in ast.walk(n):
        if not hasattr(x, "lineno"):
            x.lineno = getattr(node, "lineno", 0)
            x.col_offset = 0
    return n


def _clone_env(env):
    out = {}
    for k, v in env.items():
        out[k] = _clone_val(v)
    return out


def _clone_val(v):
    if isinstance(v, list):
        return [_clone_val(x) for x in v]
    return v


# ----------------------------------------------------------------------------- GVN domain

class GvnDomain:
    """adapter: algebra.Algebra as an interpreter domain"""
    def __init__(self, alg):
        self.alg = alg
        self.lattice = {}      # key(RF) -> ('min'|'max', [operand RFs]) for values built by min/max
        self.cur_line = 0
        self.cur_func = ""

    def is_value(self, v):
        from .algebra import RF
        return isinstance(v, RF)

    def const(self, c):
        return self.alg.const(c)

    def add(self, a, b):
        return self.alg.add(a, b)

    def sub(self, a, b):
        return self.alg.sub(a, b)

    def mul(self, a, b):
        return self.alg.mul(a, b)

    def div(self, a, b):
        return self.alg.div(a, b)

    def neg(self, a):
        return self.alg.neg(a)

    def pow(self, a, e):
        return self.alg.pow(a, e)

    def func1(self, fn, a):
        A = self.alg
        if fn == "sqrt":
            if a.is_zero():
                return A.const(0)
            return A.sqrt(a)
        if fn == "abs":
            return A.abs(a)
        if fn == "sign":
            return A.signfn(a)
        if fn == "log1p":           # exact value: log(1 + a)   (what it costs in floating point is the rounding domain's business)
            return self.func1("log", A.add(A.const(1), a))
        if fn == "expm1":
            return A.sub(self.func1("exp", a), A.const(1))
        if fn in ("log", "exp", "cos", "sin", "deg2rad"):
            if a.is_zero() and fn != "log":
                return A.const({"exp": 1, "cos": 1, "sin": 0, "deg2rad": 0}[fn])
            if fn == "log" and a.const_value() == 1:
                return A.const(0)
            if fn == "log":
                r = self._log_norm(a)
                if r is not None:
                    return r
            return A.opaque(fn, [a], positive=(fn == "exp"))
        raise AnalysisError("unsupported function %s" % fn)

    def _log_norm(self, a, depth=0):
        """log of a product of positive quantities = sum of the logs (exponents come out as factors): the normal form in which
        log(p / rho**gamma) and log(p) - gamma*log(rho) are the same ring element.  None: not a product of known-positive atoms."""
        from .algebra import RF, QExp
        A = self.alg
        if depth > 3:
            return None
        if A.atoms_of(a, "defined"):
            a = A.expand_all(a)          # (as the interning of opaque arguments does)
        if len(a.num) > 1:
            # a monomial common to every term (same atom, same exponent) comes out: (g*m - m)/(g - 1) = m * ((g - 1)/(g - 1))
            monos = list(a.num.keys())
            common = [ae for ae in monos[0] if all(ae in m for m in monos[1:])]
            if common:
                cm = tuple(common)
                cs = set(common)
                rest = {tuple(ae for ae in m if ae not in cs): c for m, c in a.num.items()}
                if len(rest) == len(a.num):
                    crf = RF(A, {cm: Fraction(1)}, ())
                    rrf = RF(A, rest, ())
                    for fid, mult in a.den:
                        for _ in range(mult):
                            rrf = A.div(rrf, RF(A, dict(A.factors[fid]), ()))
                    if A.sign(crf) == "+" and A.sign(rrf) == "+":
                        lc = self._log_norm(crf, depth + 1)
                        lc = lc if lc is not None else A.opaque("log", [crf])
                        if rrf.const_value() == 1:
                            return lc
                        lr = self._log_norm(rrf, depth + 1)
                        lr = lr if lr is not None else A.opaque("log", [rrf])
                        return A.add(lc, lr)
        if a.den:
            num, den = RF(A, a.num, ()), RF(A, A.den_poly(a), ())
            if A.sign(num) == "+" and A.sign(den) == "+":
                ln_, ld_ = self._log_norm(num, depth + 1), self._log_norm(den, depth + 1)
                ln_ = ln_ if ln_ is not None else A.opaque("log", [num])
                ld_ = ld_ if ld_ is not None else A.opaque("log", [den])
                return A.sub(ln_, ld_)
            return None
        if len(a.num) != 1:
            return None
        (mono, c), = a.num.items()
        if c <= 0 or not mono:
            return None
        if len(mono) == 1 and mono[0][1] == 1 and c == 1:
            return None                  # a single atom: its log IS the (opaque) normal form
        out = A.const(0) if c == 1 else A.opaque("log", [A.const(c)])
        for aid, e in mono:
            at = A.atoms[aid]
            arf = A.atom_rf(at)
            if A.sign(arf) != "+":
                return None
            if isinstance(e, QExp):
                g = A.atom_rf(A.gamma)
                n_ = A.const(0)
                for i, cc in enumerate(e.num):
                    n_ = A.add(n_, A.mul(A.const(cc), A.pow(g, i)))
                d_ = A.const(0)
                for i, cc in enumerate(e.den):
                    d_ = A.add(d_, A.mul(A.const(cc), A.pow(g, i)))
                erf = A.div(n_, d_)
            else:
                erf = A.const(e)
            out = A.add(out, A.mul(erf, A.opaque("log", [arf])))
        return out

    def func2(self, fn, a, b):
        # max / min of ONE symbol against a non-zero literal (np.maximum(rho, 1e-6), a floor, a cap): the witness sampler must
        # visit BOTH sides of that threshold -- the default ranges (0.3 .. 3) never reach a floor of 1e-6
        for x, c in ((a, b), (b, a)):
            cv = c.const_value() if hasattr(c, "const_value") else None
            if cv is not None and cv != 0 and not x.den and len(x.num) == 1:
                (mono, coef), = x.num.items()
                if len(mono) == 1 and mono[0][1] == 1 and self.alg.atoms[mono[0][0]].kind == "sym":
                    self.alg.threshold_hints.setdefault(self.alg.atoms[mono[0][0]].name, []).append(float(cv) / float(coef))
        r = self.alg.maximum(a, b) if fn == "maximum" else self.alg.minimum(a, b)
        # lattice normal form: the flattened set of operands of nested min (resp. max)
        kind = "max" if fn == "maximum" else "min"
        elems = []
        for x in (a, b):
            info = self.lattice.get(self.alg.key(x))
            if info is not None and info[0] == kind:
                elems.extend(info[1])
            else:
                elems.append(x)
        self.lattice[self.alg.key(r)] = (kind, elems)
        return r

    def where(self, c, a, b):
        return self.alg.where(c, a, b)

    def cmp(self, op, a, b):
        return self.alg.cmp(op, a, b)

    def cand(self, a, b):
        return self.alg.mul(a, b)

    def cor(self, a, b):
        return self.alg.sub(self.alg.add(a, b), self.alg.mul(a, b))

    def cnot(self, a):
        return self.alg.sub(self.alg.const(1), a)

    def truth(self, c):
        v = c.const_value()
        if v is None:
            return None
        return v != 0

    def fold(self, v, hint):
        r = self.alg.fold(v, hint)
        if r is not v:
            info = self.lattice.get(self.alg.key(v))
            if info is not None:
                self.lattice[self.alg.key(r)] = info
        return r

    def opaque(self, name, args, positive=False):
        return self.alg.opaque(name, args, positive)
